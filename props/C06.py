"""C06 uniform fields stay uniform"""
from .common import jobs_for
LEVEL = 'proof'
MODULES = ['contracts.ops', 'contracts.canaries']
TRUSTED = ['A1', 'A2', 'A5', 'A6', 'UF']


def jobs(tier):
    return jobs_for('C06', MODULES, tier)
