"""C14: operators, reflected operators, comparisons, logical operators, abs/neg/pow and funceval / celleval / faceeval
of CellVariable and FaceVariable: elementwise on interior cell (face) values; operands untouched; results share no
storage and no BC object with the operands; a CellVariable result carries a deep copy of the left-most variable
operand's BCs with ghost values consistent with them."""
import operator
from .common import *
from .heap import Frame, flag, arrays_of
from .solver import make_cellvar
from .state import inv_claims, current_coefs
from .bc import SIDES
from fvverif import trace as T
from fvverif.arrays import SymNDArray
from fvverif.reals import R, B
from fvverif import npshim

ALG_GRIDS = ('Grid1D', 'Grid2D', 'CylindricalGrid3D')


def _logical_and(x, y):
    if isinstance(x, (R, B)) or isinstance(y, (R, B)):
        return B.of(x) & B.of(y)
    return bool(x) and bool(y)


def _logical_or(x, y):
    if isinstance(x, (R, B)) or isinstance(y, (R, B)):
        return B.of(x) | B.of(y)
    return bool(x) or bool(y)


BINOPS = {
    '+': operator.add, '-': operator.sub, '*': operator.mul, '/': operator.truediv, '**': operator.pow,
    '>': operator.gt, '>=': operator.ge, '<': operator.lt, '<=': operator.le,
    '&': _logical_and, '|': _logical_or,
}
PY = {'+': operator.add, '-': operator.sub, '*': operator.mul, '/': operator.truediv, '**': operator.pow,
      '>': operator.gt, '>=': operator.ge, '<': operator.lt, '<=': operator.le, '&': operator.and_, '|': operator.or_}


def _np64(w, s):
    return s if w.symbolic else T.real_np.float64(s)


def _cases(w):
    """[(label, thunk -> result, operands (variables), elementwise function of the operand elements,
        index of the left-most variable operand)]"""
    a, _ = make_cellvar(w, 'va')
    b, _ = make_cellvar(w, 'vb')
    a.apply_BCs()
    b.apply_BCs()
    s = w.scalar('s', 'pos')
    arr = w.array('arr', tuple(w.N))
    cases = []
    for sym, f in BINOPS.items():
        py = PY[sym]
        posdata = sym == '**'
        cases.append(('var %s var' % sym, (lambda py=py: py(a, b)), (a, b), (lambda x, y, f=f: f(x, y)), ('a', 'b'), 0))
        cases.append(('var %s scalar' % sym, (lambda py=py: py(a, s)), (a,), (lambda x, f=f: f(x, _np64(w, s))), ('a',), 0))
        if sym not in ('&', '|', '>', '>=', '<', '<='):
            cases.append(('scalar %s var' % sym, (lambda py=py: py(s, a)), (a,), (lambda x, f=f: f(_np64(w, s), x)), ('a',), 0))
        cases.append(('var %s ndarray' % sym, (lambda py=py: py(a, arr)), (a,), (lambda x, r, f=f: f(x, r)), ('a', 'arr'), 0))
    cases.append(('-var', lambda: -a, (a,), lambda x: -x, ('a',), 0))
    cases.append(('abs(var)', lambda: abs(a), (a,), lambda x: abs(x), ('a',), 0))
    g1 = (lambda x: 2.0 * x + 1.0)
    g2 = (lambda x, y: x * y - y)
    g3 = (lambda x, y, z: x + y * z)
    cases.append(('funceval(f, var)', lambda: cel.funceval(g1, a), (a,), g1, ('a',), 0))
    cases.append(('celleval(f, var, var)', lambda: cel.celleval(g2, a, b), (a, b), g2, ('a', 'b'), 0))
    cases.append(('funceval(f, var, var, var)', lambda: cel.funceval(g3, a, b, a), (a, b), (lambda x, y: g3(x, y, x)), ('a', 'b'), 0))
    cases.append(('funceval(identity, var)', lambda: cel.funceval((lambda x: x), a), (a,), (lambda x: x), ('a',), 0))
    for n in range(4, 9):
        # arities 4..8: every argument position must reach the function (weights make the positions distinguishable)
        ops = [a, b] * 4
        fn_n = (lambda *xs: sum((j + 1) * x for j, x in enumerate(xs)))
        cases.append(('funceval(f, %d vars)' % n, (lambda n=n, fn_n=fn_n, ops=ops: cel.funceval(fn_n, *ops[:n])), (a, b),
                      (lambda x, y, n=n, fn_n=fn_n: fn_n(*([x, y] * 4)[:n])), ('a', 'b'), 0))
    # a left-most operand with a PERIODIC axis (the last one): the result must carry the periodic flags as well
    pc, _ = make_cellvar(w, 'vc', 'n' * (w.nd - 1) + 'r')
    pc.apply_BCs()
    cases.append(('periodic var + var', (lambda: pc + b), (pc, b), (lambda x, y: x + y), ('c', 'b'), 0))
    cases.append(('periodic var * scalar', (lambda: pc * s), (pc,), (lambda x: x * _np64(w, s)), ('c',), 0))
    cases.append(('scalar - periodic var', (lambda: s - pc), (pc,), (lambda x: _np64(w, s) - x), ('c',), 0))
    cases.append(('-periodic var', (lambda: -pc), (pc,), (lambda x: -x), ('c',), 0))
    cases.append(('funceval(f, periodic var)', (lambda: cel.funceval(g1, pc)), (pc,), g1, ('c',), 0))
    cases.append(('periodic var.copy()', (lambda: pc.copy()), (pc,), (lambda x: x), ('c',), 0))
    return dict(a=a, b=b, c=pc, arr=arr, s=s), cases


class CellAlgebra(Ob):
    name = 'CellVariable/operators_elementwise_pure_independent'
    props = ('C14',)
    grids = ALG_GRIDS

    def parts(self, w):
        return ['heap', 'values'] + [(a, s) for a in range(w.nd) for s in (0, 1)]

    def setup(self, w):
        env, cases = _cases(w)
        out = {}
        for label, thunk, operands, fn, names, left in cases:
            f = Frame(w, tuple(operands) + (env['arr'], w.mesh))
            r = thunk()
            obs = f.done(r)
            # BC objects must be distinct from every operand's
            bc_shared = any(r.BCs is o.BCs for o in operands) or any(
                getattr(r.BCs, fc) is getattr(o.BCs, fc) for o in operands for ax in range(w.nd) for fc in SIDES[ax])
            obs['bc_shared'] = bc_shared
            obs['is_new'] = all(r is not o for o in operands)
            out[label] = (r, obs, fn, names, operands[left])
        return dict(env=env, out=out)

    def claims(self, w, S, P, part):
        env = S['env']
        res = []
        for label, (r, obs, fn, names, leftop) in S['out'].items():
            if part == 'heap':
                res.append(('operands_untouched[%s]' % label, flag(w, not obs['written'] and not obs['rebound'])))
                res.append(('result_shares_nothing[%s]' % label, flag(w, obs['is_new'] and not obs['aliased'] and not obs['bc_shared'])))
                from .state import current_pattern
                res.append(('periodic_flags_copied_from_leftmost[%s]' % label, flag(w, current_pattern(w, r) == current_pattern(w, leftop))))
            elif part == 'values':
                args = []
                for nm in names:
                    if nm == 'arr':
                        args.append(w.at(env['arr'], tuple(p - 1 for p in P)))
                    else:
                        args.append(w.at(env[nm]._value, P))
                if not w.symbolic:
                    np_ = T.real_np
                    with np_.errstate(all='ignore'):
                        want = fn(*[np_.float64(x) for x in args])
                else:
                    want = fn(*args)
                got = w.at(r._value, P)
                if w.symbolic:
                    res.append(('interior_is_elementwise[%s]' % label, R.of(got) == R.of(want)))
                else:
                    import math
                    gv, wv = float(got), float(want)
                    ok = (math.isnan(gv) and math.isnan(wv)) or w.eq(gv, wv)
                    res.append(('interior_is_elementwise[%s]' % label, ok))
            else:
                a, s = part
                # BCs are a deep copy of the left-most variable operand's: equal coefficients ...
                ca, cb = current_coefs(w, r), current_coefs(w, leftop)
                from .bc import coef_at, boundary_cell
                Q, G = boundary_cell(w, P, a, s)
                for cn in 'abc':
                    res.append(('bcs_copied_from_leftmost[%s][%s.%s]' % (label, SIDES[a][s], cn),
                                w.eq(coef_at(w, ca, a, s, cn, Q), coef_at(w, cb, a, s, cn, Q))))
                # ... and the ghost values are consistent with them
                if not label.startswith('var **') and not label.startswith('scalar **'):
                    # ... and so is the cached boundary term the result carries (what a later solvePDE would use)
                    res += [(lab.replace('res:', 'res[%s]:' % label), c) for lab, c in inv_claims(w, r, P, part, 'res', force=True)]
        return res


def _face_cases(w):
    a = w.facevar('fa')
    b = w.facevar('fb')
    s = w.scalar('s', 'pos')
    cases = []
    for sym, f in BINOPS.items():
        py = PY[sym]
        cases.append(('face %s face' % sym, (lambda py=py: py(a, b)), (lambda x, y, f=f: f(x, y)), ('a', 'b')))
        cases.append(('face %s scalar' % sym, (lambda py=py: py(a, s)), (lambda x, f=f: f(x, _np64(w, s))), ('a',)))
        if sym not in ('&', '|', '>', '>=', '<', '<='):
            cases.append(('scalar %s face' % sym, (lambda py=py: py(s, a)), (lambda x, f=f: f(_np64(w, s), x)), ('a',)))
    cases.append(('-face', lambda: -a, lambda x: -x, ('a',)))
    cases.append(('abs(face)', lambda: abs(a), lambda x: abs(x), ('a',)))
    g2 = (lambda x, y: x * y - y)
    cases.append(('faceeval(f, face, face)', lambda: fac.faceeval(g2, a, b), g2, ('a', 'b')))
    cases.append(('faceeval(identity, face)', lambda: fac.faceeval((lambda x: x), a), (lambda x: x), ('a',)))
    cases.append(('faceeval(f, face)', lambda: fac.faceeval((lambda x: 2.0 * x + 1.0), a), (lambda x: 2.0 * x + 1.0), ('a',)))
    for n in range(3, 9):
        ops = [a, b] * 4
        fn_n = (lambda *xs: sum((j + 1) * x for j, x in enumerate(xs)))
        cases.append(('faceeval(f, %d faces)' % n, (lambda n=n, fn_n=fn_n, ops=ops: fac.faceeval(fn_n, *ops[:n])),
                      (lambda x, y, n=n, fn_n=fn_n: fn_n(*([x, y] * 4)[:n])), ('a', 'b')))
    return dict(a=a, b=b), cases


class FaceAlgebra(AxisOb):
    name = 'FaceVariable/operators_elementwise_pure_independent'
    props = ('C14',)
    grids = ALG_GRIDS

    def parts(self, w):
        return ['heap'] + list(range(w.nd))

    def setup(self, w):
        env, cases = _face_cases(w)
        out = {}
        for label, thunk, fn, names in cases:
            f = Frame(w, (env['a'], env['b'], w.mesh))
            r = thunk()
            obs = f.done(r)
            obs['is_new'] = r is not env['a'] and r is not env['b']
            out[label] = (r, obs, fn, names)
        return dict(env=env, out=out)

    def claims(self, w, S, P, part):
        env = S['env']
        res = []
        for label, (r, obs, fn, names) in S['out'].items():
            if part == 'heap':
                res.append(('operands_untouched[%s]' % label, flag(w, not obs['written'] and not obs['rebound'])))
                res.append(('result_shares_nothing[%s]' % label, flag(w, obs['is_new'] and not obs['aliased'])))
                continue
            a = part
            fidx = face_idx(P, a, 1)
            comp = '_' + AX[a] + 'value'
            args = [w.at(getattr(env[nm], comp), fidx) for nm in names]
            if not w.symbolic:
                np_ = T.real_np
                args = [np_.float64(x) for x in args]
                with np_.errstate(all='ignore'):
                    want = fn(*args)
            else:
                want = fn(*args)
            got = w.at(getattr(r, comp), fidx)
            if w.symbolic:
                res.append(('component_is_elementwise[%s][%s]' % (label, AX[a]), R.of(got) == R.of(want)))
            else:
                import math
                gv, wv = float(got), float(want)
                res.append(('component_is_elementwise[%s][%s]' % (label, AX[a]), (math.isnan(gv) and math.isnan(wv)) or w.eq(gv, wv)))
        return res


class CellAccessors(Ob):
    """CellVariable.__array__ (NumPy integration) yields the interior cell values, CellVariable.cellcenters is the
    mesh's cell-centre object; neither touches the variable (values, dirty bits)"""
    name = 'CellVariable/array_protocol_and_cellcenters'
    props = ('C14',)
    grids = ALG_GRIDS
    functions = ('pyfvtool.cell.CellVariable.__array__', 'pyfvtool.cell.CellVariable.cellcenters')

    def setup(self, w):
        a, _ = make_cellvar(w, 'va')
        a.apply_BCs()
        before = (a._value, a.BCs, bool(a.value.modified), bool(a.BCs.modified))
        arr = a.__array__()
        cc = a.cellcenters
        after = (a._value, a.BCs, bool(a.value.modified), bool(a.BCs.modified))
        untouched = before[0] is after[0] and before[1] is after[1] and before[2:] == after[2:]
        return dict(a=a, arr=arr, cc=cc, untouched=untouched)

    def claims(self, w, S, P, part=None):
        a = S['a']
        return [('array_is_interior_values', w.eq(w.at(S['arr'], tuple(p - 1 for p in P)), w.at(a._value, P))),
                ('cellcenters_is_mesh_cellcenters', flag(w, S['cc'] is w.mesh.cellcenters)),
                ('variable_untouched', flag(w, S['untouched']))]
