"""Builders are functions of the CURRENT state of the objects they are given (C09 'no stale state', C15 'repeated calls
with equal inputs give identical results'): a builder is called on an object, the object is edited IN PLACE through the
documented protocol (slice assignment of FaceVariable components; `.value = ...` followed by apply_BCs() / a solve for
CellVariables -- which clears the dirty bits), and the builder is called again on the SAME object: the second result must
equal the result for a freshly constructed object with the new contents.  A memo kept on the argument object (or keyed
on its identity, on its dirty bits, on part of its data, or compared with a tolerance) makes the second call return
stale numbers and fails the clause."""
from .common import *
from .solver import make_cellvar
from .ops import sym_limiter
from .bc import make_bc
from fvverif import trace as T
from fvverif.arrays import SymNDArray
from fvverif.npshim import SymSparse


def _eq(w, x, y):
    if w.symbolic:
        return w.eq(x, y)
    import math
    x, y = float(x), float(y)
    if not (math.isfinite(x) and math.isfinite(y)):      # random native data may hit inf / nan: identical is identical
        return (math.isnan(x) and math.isnan(y)) or x == y
    if getattr(w, 'pure_relative', False):               # tiny data: compare relative to the values themselves
        return abs(x - y) <= 1e-9 * max(abs(x), abs(y))
    return w.eq(x, y)


def _same_at(w, a, b, P, label, psi):
    """claims: the two results agree at (the faces of) cell P"""
    out = []
    if isinstance(a, (tuple, list)):
        for j, (x, y) in enumerate(zip(a, b)):
            out += _same_at(w, x, y, P, '%s.%d' % (label, j), psi)
        return out
    if hasattr(a, '_xvalue'):
        for ax in range(w.nd):
            comp = '_' + AX[ax] + 'value'
            for side in (0, 1):
                f = face_idx(P, ax, side)
                out.append(('%s.%s[%s]' % (label, comp, side), _eq(w, w.at(getattr(a, comp), f), w.at(getattr(b, comp), f))))
        return out
    if isinstance(a, SymSparse) or hasattr(a, 'toarray'):
        return [(label + '@psi', _eq(w, w.apply(a, psi, P), w.apply(b, psi, P)))]
    return [(label, _eq(w, w.vec(a, P), w.vec(b, P)))]


class _Recomputed(Ob):
    """evaluated at a cell at least two cells away from every boundary (one region, no case split): a stale result
    shows in every cell"""
    props = ('C09', 'C15', 'C05', 'C08', 'C12', 'C17')

    def region(self, w):
        return [c for a in range(w.nd) for c in (I(w.P[a]) >= 3, I(w.P[a]) <= w.N[a] - 2)]

    def points(self, w):
        return w.interior_points()          # natively every interior cell (small grids)


class FaceArgRecomputed(_Recomputed):
    name = 'builders/recomputed_after_inplace_edit_of_FaceVariable'
    edit = 'all'            # 'all': every component re-assigned; 'last-axis': only the component of the last axis
    scale = 1               # 1e-9: physically small coefficient values (a tolerance-based "unchanged" test would miss the edit)

    def setup(self, w):
        FL = sym_limiter(w)
        phi, _ = make_cellvar(w, 'phi0')
        builders_ = {
            'diffusionTerm': lambda k: dif.diffusionTerm(k),
            'convectionTerm': lambda k: adv.convectionTerm(k),
            'convectionUpwindTerm': lambda k: adv.convectionUpwindTerm(k),
            'divergenceTerm': lambda k: cal.divergenceTerm(k),
            'convectionTVDupwindRHSTerm': lambda k: adv.convectionTVDupwindRHSTerm(k, phi, FL),
            'upwindMean': lambda k: avg.upwindMean(phi, k),
        }
        sc = self.scale
        w.pure_relative = (sc != 1)
        out = {}
        for nm, f in builders_.items():
            k0 = w.facevar('old_' + nm[:4])
            comps0 = [getattr(k0, '_' + AX[ax] + 'value') * sc for ax in range(w.nd)]
            while len(comps0) < 3:
                comps0.append(w.np.array([]))
            k = fac.FaceVariable(w.mesh, comps0[0], comps0[1], comps0[2])
            f(k)                                             # first call on the old contents
            cur = list(comps0)
            axes = list(reversed(range(w.nd))) if self.edit == 'all' else [w.nd - 1]
            for ax in axes:
                comp = getattr(k, '_' + AX[ax] + 'value')
                cur[ax] = w.array('new_%s%s' % (nm[:4], AX[ax]), tuple(comp.shape)) * sc
                comp[...] = cur[ax]                          # documented in-place edit (k.xvalue[...] = ...)
            r = f(k)                                         # second call on the SAME object
            ref = f(fac.FaceVariable(w.mesh, w.np.copy(cur[0]), w.np.copy(cur[1]), w.np.copy(cur[2])))
            out[nm] = (r, ref)
        return dict(out=out, psi=w.rawcell('psi')._value)

    def claims(self, w, S, P, part=None):
        res = []
        for nm, (r, ref) in S['out'].items():
            res += _same_at(w, r, ref, P, nm, S['psi'])
        if not w.symbolic:
            w.scale = 1e3
        return res


class FaceArgRecomputedLastAxis(FaceArgRecomputed):
    name = 'builders/recomputed_after_inplace_edit_of_one_FaceVariable_component'
    edit = 'last-axis'
    grids = tuple(g for g in ALL if GRIDS[g]['nd'] > 1)


class FaceArgRecomputedTiny(FaceArgRecomputed):
    name = 'builders/recomputed_after_inplace_edit_of_FaceVariable(values of order 1e-9)'
    scale = 1e-9
    grids = ('Grid1D', 'Grid2D', 'CylindricalGrid3D')


class CellArgRecomputed(_Recomputed):
    name = 'builders/recomputed_after_edit_and_resync_of_CellVariable'

    def setup(self, w):
        FL = sym_limiter(w)
        u = w.facevar('u')
        dt = w.scalar('dt', 'pos')
        some, _ = make_cellvar(w, 'some')
        builders_ = {
            'linearMean': lambda c: avg.linearMean(c),
            'arithmeticMean': lambda c: avg.arithmeticMean(c),
            'harmonicMean': lambda c: avg.harmonicMean(c),
            'upwindMean': lambda c: avg.upwindMean(c, u),
            'gradientTerm': lambda c: cal.gradientTerm(c),
            'transientTerm(old)': lambda c: src_.transientTerm(c, dt, 1.0),
            'transientTerm(alpha)': lambda c: src_.transientTerm(some, dt, c),
            'linearSourceTerm': lambda c: src_.linearSourceTerm(c),
            'constantSourceTerm': lambda c: src_.constantSourceTerm(c),
            'convectionTVDupwindRHSTerm': lambda c: adv.convectionTVDupwindRHSTerm(u, c, FL),
        }
        if w.nd == 1:
            del builders_['harmonicMean']      # 1-D: a Python loop over cells (summarised by generic iteration; means.py)
        out = {}
        for nm, f in builders_.items():
            tag = ''.join(ch for ch in nm if ch.isalnum())[:10]
            BC, _ = make_bc(w, 'n' * w.nd, prefix='b' + tag)
            c = cel.CellVariable(w.mesh, w.array('o' + tag, tuple(w.N)), BC)
            c.apply_BCs()
            f(c)                                             # first call
            newv = w.array('n' + tag, tuple(w.N))
            c.value = newv
            c.apply_BCs()                                    # re-synchronised: the dirty bits are clear again
            r = f(c)                                         # second call on the SAME object
            ref = f(cel.CellVariable(w.mesh, newv, BC))
            out[nm] = (r, ref)
        return dict(out=out, psi=w.rawcell('psi')._value)

    def claims(self, w, S, P, part=None):
        res = []
        for nm, (r, ref) in S['out'].items():
            res += _same_at(w, r, ref, P, nm, S['psi'])
        if not w.symbolic:
            w.scale = 1e3
        return res
