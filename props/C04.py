"""C04 solvePDE solves exactly the system its term list and BCs define, in place"""
from .common import jobs_for
LEVEL = 'proof'
LEVEL_TEXT = 'the real solvePDE is traced on real CellVariable/BoundaryConditions objects with symbolic contents and a recording solver: every row of the system handed to the solver is proved equal to boundary row + sum of the (negated/scaled) matrix, vector and pair terms for an arbitrary field; same object returned, one solver call, interior = reshaped solver output, ghosts satisfy the BCs; accumulation loop invariant checked on the loop body extracted from the current source for every kind of term (so any list length/order); builders contribute only interior rows; solveMatrixPDE hands the given system to the given solver; unknown terms raise TypeError'
LEVEL_NOTE = 'spsolve / external solver is an uninterpreted function of the identical (M, RHS) (A4); linear dependence of the solution on sources, boundary data and old values follows from the row identity (M free of them, RHS additive) plus non-singularity (assumed)'
NOT_MACHINE_CHECKED = ['non-singularity of the assembled system (precondition of uniqueness, A4); linear dependence of the SOLUTION on sources / boundary data / old values follows from the proved structure (M free of them, RHS additive) with the Lean lemma unique_solution, correspondence by inspection']
MODULES = ['contracts.solver', 'contracts.ops', 'contracts.bc', 'contracts.mesh']
TRUSTED = ['A1', 'A2', 'A4', 'A5', 'A6', 'UF']


def jobs(tier):
    return jobs_for('C04', MODULES, tier)


def extra(tier, seed):
    from fvverif.lean import lemma_status
    ok, detail = lemma_status(['unique_solution'], rebuild=(tier == 'thorough'))
    return [('lean lemmas unique_solution: two field vectors satisfying the same rows of a non-singular system are equal (solvePDE vs solveMatrixPDE, linear dependence on data)', ok, 'lean:' + detail)]
