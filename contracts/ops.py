"""Contract clauses on the term builders (diffusion / central / upwind / TVD advection, divergence, gradient,
means) -- operator-level identities, per axis, for a symbolic interior cell on every grid class."""
from .common import *
from fvverif.npshim import SymSparse
from fvverif.arrays import SymNDArray
from fvverif import npshim


def ones_field(w):
    return w.np.ones(w.ghost_shape())


def sym_limiter(w):
    """an arbitrary limiter: uninterpreted psi in the symbolic world, a named one natively"""
    names = ['CHARM', 'HQUICK', 'ospre', 'VanLeer', 'VanAlbada1', 'MinMod', 'SUPERBEE', 'Sweby', 'Osher',
             'Koren', 'smart', 'MUSCL', 'QUICK', 'UMIST']
    if getattr(w, 'choice_rng', None) is not None:
        # conformance runs: the same named limiter traced through the model and run natively
        return pf.fluxLimiter(names[w.choice_rng.randrange(len(names))])
    if w.symbolic:
        def FL(r):
            if isinstance(r, SymNDArray):
                return npshim.elementwise(lambda x: R.fn('psi', R.of(x)), (r,), 'real')
            return R.fn('psi', R.of(r))
        return FL
    return pf.fluxLimiter(names[w.rng.randrange(len(names))])


# ------------------------------------------------------------------------------------------------
#  structure: rows, columns, sum of axis parts                                       (C04, C01 locality)

class MatrixStructure(Ob):
    """rows only for interior cells; columns are the cell itself and its two axis neighbours; M = sum of parts"""
    props = ('C04', 'C01')
    stem = None
    mod = None
    coef = 'k'

    def build(self, w):
        return builder(self.mod, self.stem, w.grid)(w.facevar(self.coef))

    def setup(self, w):
        M, ps = parts(self.build(w))
        d = dict(M=M)
        for a, p in enumerate(ps):
            d['M%d' % a] = p
        return d

    def region(self, w):
        # every cell including ghosts
        conds = []
        for a in range(w.nd):
            conds += [I(w.P[a]) >= 0, I(w.P[a]) <= w.N[a] + 1]
        return conds

    def points(self, w):
        import itertools
        return list(itertools.product(*[range(0, n + 2) for n in w.N]))

    def _interior(self, w, P):
        if w.symbolic:
            return all(CTX.decide((I(P[a]) >= 1) & (I(P[a]) <= w.N[a])) for a in range(w.nd))
        return all(1 <= P[a] <= w.N[a] for a in range(w.nd))

    def parts(self, w):
        return list(range(w.nd)) + ['sum']

    def claims(self, w, S, P, part):
        out = []
        nparts = len([k for k in S if k.startswith('M') and k != 'M'])
        if part == 'sum':
            return self._sum_claim(w, S, nparts)
        interior = self._interior(w, P)
        for a in [part]:
            row = w.row(S['M%d' % a], P)
            if not interior:
                ok = all(self._is_zero(w, v) for c, v in row)
                out.append(('rows_only_interior[%s]' % AX[a], w.true() if ok else self._false(w)))
            else:
                ax = a if nparts > 1 else 0
                ok = True
                for c, v in row:
                    if not self._neighbour(w, P, c, ax):
                        ok = ok and self._is_zero(w, v)
                out.append(('cols_are_axis_neighbours[%s]' % AX[a], w.true() if ok else self._false(w)))
        return out

    def _sum_claim(self, w, S, nparts):
        out = []
        if w.symbolic:
            fam_total = [id(f) for f in S['M'].families]
            fam_parts = [id(f) for a in range(nparts) for f in S['M%d' % a].families]
            ok = (nparts == 1 and S['M'] is S['M0']) or fam_total == fam_parts
        else:
            tot = S['M0']
            for a in range(1, nparts):
                tot = tot + S['M%d' % a]
            d = (S['M'] - tot)
            ok = (abs(d).max() if d.nnz else 0.0) <= 1e-12 * max(1.0, abs(S['M']).max() if S['M'].nnz else 1.0)
        out.append(('M_is_sum_of_axis_parts', w.true() if ok else self._false(w)))
        return out

    def _false(self, w):
        return B.const(False) if w.symbolic else False

    def _is_zero(self, w, v):
        if w.symbolic:
            return R.of(v).is_const() and R.of(v).cval() == 0
        return v == 0.0

    def _neighbour(self, w, P, c, ax):
        if w.symbolic:
            cond = ICond.true()
            for b in range(w.nd):
                if b == ax:
                    cond = cond & ((I(c[b]) - I(P[b]) >= -1) & (I(c[b]) - I(P[b]) <= 1))
                else:
                    cond = cond & (I(c[b]) == I(P[b]))
            return CTX.decide(cond)
        return all((abs(c[b] - P[b]) <= 1) if b == ax else (c[b] == P[b]) for b in range(w.nd))


class DiffStructure(MatrixStructure):
    name = 'diffusionTerm/structure'
    stem, mod, coef = 'diffusionTerm', dif, 'D'


class ConvStructure(MatrixStructure):
    name = 'convectionTerm/structure'
    stem, mod, coef = 'convectionTerm', adv, 'u'


class UpwindStructure(MatrixStructure):
    name = 'convectionUpwindTerm/structure'
    stem, mod, coef = 'convectionUpwindTerm', adv, 'u'


class VectorStructure(Ob):
    """vector builders: zero outside interior cells; total = sum of axis parts"""
    props = ('C04', 'C01')

    def region(self, w):
        conds = []
        for a in range(w.nd):
            conds += [I(w.P[a]) >= 0, I(w.P[a]) <= w.N[a] + 1]
        return conds

    def points(self, w):
        import itertools
        return list(itertools.product(*[range(0, n + 2) for n in w.N]))

    def build(self, w):
        raise NotImplementedError

    def setup(self, w):
        V, ps = parts(self.build(w))
        d = dict(V=V)
        for a, p in enumerate(ps):
            d['V%d' % a] = p
        return d

    def parts(self, w):
        return list(range(w.nd)) + ['sum']

    def claims(self, w, S, P, part):
        out = []
        nparts = len([k for k in S if k.startswith('V') and k != 'V'])
        if part == 'sum':
            tot = 0
            for a in range(nparts):
                tot = tot + w.vec(S['V%d' % a], P)
            return [('total_is_sum_of_axis_parts', w.eq(w.vec(S['V'], P), tot))]
        if w.symbolic:
            interior = all(CTX.decide((I(P[a]) >= 1) & (I(P[a]) <= w.N[a])) for a in range(w.nd))
        else:
            interior = all(1 <= P[a] <= w.N[a] for a in range(w.nd))
        if not interior:
            out.append(('zero_outside_interior[%s]' % AX[part], w.eq(w.vec(S['V%d' % part], P), 0)))
        return out


class DivStructure(VectorStructure):
    name = 'divergenceTerm/structure'

    def build(self, w):
        return builder(cal, 'divergenceTerm', w.grid)(w.facevar('F'))


class TvdStructure(VectorStructure):
    name = 'convectionTvdRHS/structure'

    def build(self, w):
        return builder(adv, 'convectionTvdRHS', w.grid)(w.facevar('u'), w.rawcell('phi'), sym_limiter(w))


# ------------------------------------------------------------------------------------------------
#  constants                                                                              (C06)

class DiffConstField(AxisOb):
    name = 'diffusionTerm/const_field'
    props = ('C06',)

    def setup(self, w):
        M, ps = parts(builder(dif, 'diffusionTerm', w.grid)(w.facevar('D')))
        return dict(ps=ps, one=ones_field(w))

    def claims(self, w, S, P, a):
        Ma = S['ps'][a]
        return [('diffusion_of_constant_is_zero[%s]' % AX[a], w.eq(w.apply(Ma, S['one'], P), 0))]


class ConvConstField(AxisOb):
    name = 'convectionTerm/const_field'
    props = ('C06',)

    def setup(self, w):
        u = w.facevar('u')
        M, ps = parts(builder(adv, 'convectionTerm', w.grid)(u))
        d, ds = parts(builder(cal, 'divergenceTerm', w.grid)(u))
        return dict(ps=ps, ds=ds, one=ones_field(w))

    def claims(self, w, S, P, a):
        Ma = S['ps'][a]
        return [('central_of_constant_is_div_u[%s]' % AX[a], w.eq(w.apply(Ma, S['one'], P), w.vec(S['ds'][a], P)))]


class UpwindConstField(AxisOb):
    name = 'convectionUpwindTerm/const_field'
    props = ('C06',)
    with_upwind = False

    uu_kind = None

    def setup(self, w):
        u = w.facevar('u')
        args = (w.facevar('uu', self.uu_kind),) if self.with_upwind else ()
        M, ps = parts(builder(adv, 'convectionUpwindTerm', w.grid)(u, *args))
        d, ds = parts(builder(cal, 'divergenceTerm', w.grid)(u))
        return dict(ps=ps, ds=ds, one=ones_field(w))

    def claims(self, w, S, P, a):
        Ma = S['ps'][a]
        return [('upwind_of_constant_is_div_u[%s]' % AX[a], w.eq(w.apply(Ma, S['one'], P), w.vec(S['ds'][a], P)))]


class UpwindConstFieldUU(UpwindConstField):
    name = 'convectionUpwindTerm/const_field+u_upwind'
    with_upwind = True


class UpwindConstFieldUUnz(UpwindConstField):
    """the same clause restricted to upwind-direction fields without exact zeros (the unrestricted clause above is
    a recorded finding; this one keeps the u_upwind code path under proof)"""
    name = 'convectionUpwindTerm/const_field+u_upwind(nonzero)'
    with_upwind = True
    uu_kind = 'nonzero'


class TvdConstField(AxisOb):
    name = 'convectionTvdRHS/const_field'
    props = ('C06',)

    def setup(self, w):
        u = w.facevar('u')
        c = w.scalar('c0')
        phi = T.RawCell(w.mesh, c * ones_field(w))
        V, ps = parts(builder(adv, 'convectionTvdRHS', w.grid)(u, phi, sym_limiter(w)))
        return dict(ps=ps)

    def claims(self, w, S, P, a):
        Va = S['ps'][a]
        return [('tvd_of_constant_is_zero[%s]' % AX[a], w.eq(w.vec(Va, P), 0))]


# ------------------------------------------------------------------------------------------------
#  implicit matrices = explicit chain                                                      (C05)

class DiffEqualsChain(AxisOb):
    name = 'diffusionTerm/equals_div_D_grad'
    props = ('C05',)

    def setup(self, w):
        D = w.facevar('D')
        phi = w.rawcell('phi')
        M, ps = parts(builder(dif, 'diffusionTerm', w.grid)(D))
        g = cal.gradientTerm(phi)
        d, ds = parts(builder(cal, 'divergenceTerm', w.grid)(D * g))
        return dict(ps=ps, ds=ds, phi=phi._value)

    def claims(self, w, S, P, a):
        Ma = S['ps'][a]
        return [('M_phi_is_div_D_grad_phi[%s]' % AX[a], w.eq(w.apply(Ma, S['phi'], P), w.vec(S['ds'][a], P)))]


class ConvEqualsChain(AxisOb):
    name = 'convectionTerm/equals_div_u_linearMean'
    props = ('C05',)

    def setup(self, w):
        u = w.facevar('u')
        phi = w.rawcell('phi')
        M, ps = parts(builder(adv, 'convectionTerm', w.grid)(u))
        d, ds = parts(builder(cal, 'divergenceTerm', w.grid)(u * avg.linearMean(phi)))
        return dict(ps=ps, ds=ds, phi=phi._value)

    def claims(self, w, S, P, a):
        Ma = S['ps'][a]
        return [('M_phi_is_div_u_linearMean_phi[%s]' % AX[a], w.eq(w.apply(Ma, S['phi'], P), w.vec(S['ds'][a], P)))]


class UpwindEqualsChain(AxisOb):
    name = 'convectionUpwindTerm/equals_div_u_upwindMean'
    props = ('C05',)
    with_upwind = False

    uu_kind = None

    def setup(self, w):
        u = w.facevar('u')
        uu = w.facevar('uu', self.uu_kind) if self.with_upwind else u
        args = (uu,) if self.with_upwind else ()
        phi = w.rawcell('phi')
        M, ps = parts(builder(adv, 'convectionUpwindTerm', w.grid)(u, *args))
        d, ds = parts(builder(cal, 'divergenceTerm', w.grid)(u * avg.upwindMean(phi, uu)))
        return dict(ps=ps, ds=ds, phi=phi._value)

    def claims(self, w, S, P, a):
        Ma = S['ps'][a]
        return [('M_phi_is_div_u_upwindMean_phi[%s]' % AX[a], w.eq(w.apply(Ma, S['phi'], P), w.vec(S['ds'][a], P)))]


class UpwindEqualsChainUU(UpwindEqualsChain):
    name = 'convectionUpwindTerm/equals_div_u_upwindMean+u_upwind'
    with_upwind = True


class UpwindEqualsChainUUnz(UpwindEqualsChain):
    name = 'convectionUpwindTerm/equals_div_u_upwindMean+u_upwind(nonzero)'
    with_upwind = True
    uu_kind = 'nonzero'


class TvdZeroLimiter(AxisOb):
    name = 'convectionTvdRHS/zero_limiter_zero'
    props = ('C05',)

    def setup(self, w):
        V, ps = parts(builder(adv, 'convectionTvdRHS', w.grid)(w.facevar('u'), w.rawcell('phi'), (lambda r: 0.0)))
        return dict(ps=ps)

    def claims(self, w, S, P, a):
        Va = S['ps'][a]
        return [('tvd_zero_limiter[%s]' % AX[a], w.eq(w.vec(Va, P), 0))]


from fvverif import trace as T   # noqa: E402


# ------------------------------------------------------------------------------------------------
#  conservation: interior face fluxes cancel                                              (C01)

class _Conservation(AxisOb):
    """For the interior face f between cells P and P+e_a:  V_P*T_P + V_{P+}*T_{P+}  does not depend on the
    coefficient on f (T = the term applied to an arbitrary field incl. ghosts; V = mesh.cellvolume as reported
    by the real _getCellVolumes).  With locality (T_Q mentions only coefficients on faces of Q) this is exactly
    'what leaves a cell through an interior face enters its neighbour'."""
    props = ('C01',)
    coef = 'k'

    def term(self, w, k, phi):
        """-> list of per-axis callables P -> T_P"""
        raise NotImplementedError

    def setup(self, w):
        k = w.facevar(self.coef)
        phi = w.rawcell('phi')
        return dict(T=self.term(w, k, phi), V=w.mesh.cellvolume, k=k)

    def region(self, w):
        # P interior and P+e_a interior is imposed per axis inside claims (needs N_a >= 2)
        return w.interior()

    def points(self, w):
        return w.interior_points()

    def W(self, w, S, P, a):
        Q = shift(P, a, 1)
        return cell_volume(w, S, P) * S['T'][a](P) + cell_volume(w, S, Q) * S['T'][a](Q)

    def claims(self, w, S, P, a):
        fidx = face_idx(P, a, 1)
        name = self.coef + AX[a]
        if w.symbolic:
            if not CTX.decide(I(P[a]) <= w.N[a] - 1):
                return []
            Wv = R.of(self.W(w, S, P, a))
            fresh = R.var(name + "'")
            target = tuple(I(i) for i in fidx)

            def sub(nm, idx):
                if nm == name and all(CTX.decide(I(x) == y) for x, y in zip(idx, target)):
                    return fresh
                return None
            W2 = subst_vars(Wv, sub)
            out = [('interior_face_flux_cancels[%s]' % AX[a], w.eq(Wv, W2))]
            # locality: T_P mentions the a-coefficient only on the two a-faces of P
            TP = R.of(S['T'][a](P))
            lo = tuple(I(i) for i in face_idx(P, a, 0))
            ok = True
            for v in variables(TP):
                if v.node[1] == name:
                    idx = v.node[2]
                    on_lo = all(CTX.decide(I(x) == y) for x, y in zip(idx, lo))
                    on_hi = all(CTX.decide(I(x) == y) for x, y in zip(idx, target))
                    ok = ok and (on_lo or on_hi)
            out.append(('face_coeff_local[%s]' % AX[a], B.const(ok)))
            return out
        if P[a] > w.N[a] - 1:
            return []
        W1 = self.W(w, S, P, a)
        # perturb the coefficient on the shared face and recompute with the real code
        from fvverif.world import RealWorld
        import copy
        w2 = RealWorld(w.grid, w.N, seed=0)
        w2.src.values = {k_: (v.copy() if hasattr(v, 'copy') else v) for k_, v in w.src.values.items()}
        w2.src.constraints = dict(w.src.constraints)
        arr = w2.src.values[name]
        arr[tuple(fidx)] = arr[tuple(fidx)] + 3
        w2.choice_rng = None
        w2.rng = __import__('random').Random(12345)
        w.rng = __import__('random').Random(12345)
        S2 = self.setup(w2)
        W2 = self.W(w2, S2, P, a)
        w.scale = 50.0
        return [('interior_face_flux_cancels[%s]' % AX[a], w.eq(W1, W2))]


class DiffConservation(_Conservation):
    name = 'diffusionTerm/conservation'
    coef = 'D'

    def term(self, w, k, phi):
        M, ps = parts(builder(dif, 'diffusionTerm', w.grid)(k))
        return [(lambda P, Ma=Ma: w.apply(Ma, phi._value, P)) for Ma in ps]


class ConvConservation(_Conservation):
    name = 'convectionTerm/conservation'
    coef = 'u'

    def term(self, w, k, phi):
        M, ps = parts(builder(adv, 'convectionTerm', w.grid)(k))
        return [(lambda P, Ma=Ma: w.apply(Ma, phi._value, P)) for Ma in ps]


class UpwindConservation(_Conservation):
    name = 'convectionUpwindTerm/conservation'
    coef = 'u'

    def term(self, w, k, phi):
        M, ps = parts(builder(adv, 'convectionUpwindTerm', w.grid)(k))
        return [(lambda P, Ma=Ma: w.apply(Ma, phi._value, P)) for Ma in ps]


class TvdConservation(_Conservation):
    name = 'convectionTvdRHS/conservation'
    coef = 'u'

    def term(self, w, k, phi):
        FL = sym_limiter(w)
        V, ps = parts(builder(adv, 'convectionTvdRHS', w.grid)(k, phi, FL))
        return [(lambda P, Va=Va: w.vec(Va, P)) for Va in ps]


class DivConservation(_Conservation):
    name = 'divergenceTerm/conservation'
    coef = 'F'

    def term(self, w, k, phi):
        V, ps = parts(builder(cal, 'divergenceTerm', w.grid)(k))
        return [(lambda P, Va=Va: w.vec(Va, P)) for Va in ps]
