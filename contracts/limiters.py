"""C13: flux limiters against their published closed forms (spec written from the literature, Waterson & Deconinck
2007 / Wikipedia 'Flux limiter'), totality, TVD bounds; _fsign; totality of the TVD correction builders."""
from .common import *
from .ops import sym_limiter
from fvverif.reals import denominators, rmin, rmax
from fvverif.arrays import SymNDArray
import math

NAMES = ['CHARM', 'HCUS', 'HQUICK', 'ospre', 'VanLeer', 'VanAlbada1', 'VanAlbada2', 'MinMod', 'SUPERBEE',
         'Sweby', 'Osher', 'Koren', 'smart', 'MUSCL', 'QUICK', 'UMIST']
CLIPPED = ['MinMod', 'SUPERBEE', 'Osher', 'Sweby', 'Koren', 'MUSCL', 'QUICK', 'UMIST', 'smart', 'VanLeer']
# r -> psi(r) in the TVD region bounds claimed by the property; VanAlbada2 is documented as not 2nd-order TVD at r<0
SAMPLE_R = [0.0, 1.0, -1.0, 2.0, -2.0, 3.0, -3.0, 0.5, -0.5, 1e-3, -1e-3, 1e3, -1e3, 0.25, 4.0, 1.5, 1 / 3, 2 / 3,
            1e-100, -1e-100, 1e100, -1e100, 0.1, 7.0, -0.381966, (-1 + 5 ** 0.5) / 2]


class _Gen:
    """generic min / max / abs / where over both worlds"""
    def __init__(self, w):
        self.w = w

    def mn(self, a, b):
        return rmin(a, b) if self.w.symbolic else min(a, b)

    def mx(self, a, b):
        return rmax(a, b) if self.w.symbolic else max(a, b)

    def ab(self, a):
        return abs(R.of(a)) if self.w.symbolic else abs(a)

    def pos(self, r, a):
        """a() if r > 0 else 0   (a is a thunk: natively the quotient is only evaluated where it is used)"""
        if self.w.symbolic:
            return R.ite(R.of(r) > 0, R.of(a()), R.const(0))
        return a() if r > 0 else 0.0


def spec(name, r, g):
    """the published closed form, extended by continuity where the quotient form has a removable singularity"""
    mn, mx, ab = g.mn, g.mx, g.ab
    if name == 'CHARM':
        return g.pos(r, lambda: r * (3 * r + 1) / ((r + 1) * (r + 1)))
    if name == 'HCUS':
        return g.pos(r, lambda: 3 * r / (r + 2))
    if name == 'HQUICK':
        return g.pos(r, lambda: 4 * r / (r + 3))
    if name == 'ospre':
        return 1.5 * (r * r + r) / (r * r + r + 1)
    if name == 'VanLeer':
        return (r + ab(r)) / (1 + ab(r))
    if name == 'VanAlbada1':
        return (r * r + r) / (r * r + 1)
    if name == 'VanAlbada2':
        return 2 * r / (r * r + 1)
    if name == 'MinMod':
        return mx(0, mn(1, r))
    if name == 'SUPERBEE':
        return mx(0, mx(mn(2 * r, 1), mn(r, 2)))
    if name == 'Sweby':
        return mx(0, mx(mn(1.5 * r, 1), mn(r, 1.5)))
    if name == 'Osher':
        return mx(0, mn(r, 1.5))
    if name == 'Koren':
        return mx(0, mn(2 * r, mn((1 + 2 * r) / 3, 2)))
    if name == 'smart':
        return mx(0, mn(2 * r, mn(0.25 + 0.75 * r, 4)))
    if name == 'MUSCL':
        return mx(0, mn(2 * r, mn((1 + r) / 2, 2)))
    if name == 'QUICK':
        return mx(0, mn(2 * r, mn((3 + r) / 4, 2)))
    if name == 'UMIST':
        return mx(0, mn(2 * r, mn(0.25 + 0.75 * r, mn(0.75 + 0.25 * r, 2))))
    raise KeyError(name)


class _LimiterOb(Ob):
    props = ('C13',)
    grids = ('Grid1D',)
    lname = None
    functions = ('pyfvtool.utilities.fluxLimiter',)

    def region(self, w):
        return []

    def points(self, w):
        return [(r,) for r in SAMPLE_R]

    def setup(self, w):
        return dict(FL=utl.fluxLimiter(self.lname))

    def r_of(self, w, P):
        if w.symbolic:
            return R.var('r')
        fixed = getattr(w.src, 'partial', {}).get('r', {})
        if () in fixed:                     # replay of a counter-model
            return float(fixed[()])
        return float(P[0])

    def fin(self, w, v):
        return True if w.symbolic else math.isfinite(v)


def _mk(name):
    class Formula(_LimiterOb):
        lname = name

        def claims(self, w, S, P, part=None):
            r = self.r_of(w, P)
            g = _Gen(w)
            v = S['FL'](r)
            out = [('equals_published_formula', w.eq(v, spec(name, r, g)))]
            if w.symbolic:
                ok = B.const(True)
                for den, guard in denominators(R.of(v)):
                    ok = ok & (den != 0)
                out.append(('total', ok))
            else:
                out.append(('total', math.isfinite(v)))
            return out
    Formula.name = 'fluxLimiter/%s/formula_and_total' % name
    Formula.__name__ = 'Formula_' + name

    class Bounds(_LimiterOb):
        lname = name

        def claims(self, w, S, P, part=None):
            r = self.r_of(w, P)
            g = _Gen(w)
            v = S['FL'](r)
            one = S['FL'](1.0)
            out = [('psi_of_one', w.eq(one, 1))]
            if w.symbolic:
                rr = R.of(r)
                vv = R.of(v)
                out.append(('tvd_region', (rr > 0).implies((vv >= 0) & (vv <= rmin(2 * rr, R.const(4))))))
                if name in CLIPPED:
                    out.append(('vanishes_nonpositive', (rr <= 0).implies(vv == 0)))
            else:
                if r > 0 and math.isfinite(v):
                    out.append(('tvd_region', -1e-12 <= v <= min(2 * r, 4.0) * (1 + 1e-12) + 1e-300))
                if r <= 0 and name in CLIPPED and math.isfinite(v):
                    out.append(('vanishes_nonpositive', v == 0.0))
            return out
    Bounds.name = 'fluxLimiter/%s/bounds' % name
    Bounds.__name__ = 'Bounds_' + name
    return Formula, Bounds


for _n in NAMES:
    _f, _b = _mk(_n)
    globals()[_f.__name__] = _f
    globals()[_b.__name__] = _b
    _f.__module__ = __name__
    _b.__module__ = __name__


class UnknownNameIsSuperbee(_LimiterOb):
    name = 'fluxLimiter/unknown_name_is_superbee'
    lname = 'no-such-limiter'

    def setup(self, w):
        import io, contextlib
        with contextlib.redirect_stdout(io.StringIO()):
            return dict(FL=utl.fluxLimiter(self.lname))

    def claims(self, w, S, P, part=None):
        r = self.r_of(w, P)
        return [('unknown_name_is_superbee', w.eq(S['FL'](r), spec('SUPERBEE', r, _Gen(w))))]


class FsignNonzero(_LimiterOb):
    name = '_fsign/nonzero'
    functions = ('pyfvtool.advection._fsign',)

    def setup(self, w):
        return {}

    def claims(self, w, S, P, part=None):
        x = self.r_of(w, P)
        v = adv._fsign(x)
        if w.symbolic:
            xx, vv = R.of(x), R.of(v)
            return [('fsign_nonzero', vv != 0),
                    ('fsign_is_identity_outside_eps_band', (abs(xx) >= R.const(1e-16)).implies(vv == xx))]
        return [('fsign_nonzero', v != 0.0)]


class TvdTotal(AxisOb):
    """every division executed by convectionTvdRHS* has a non-zero denominator for every finite field, velocity and
    well-formed mesh (limiter = arbitrary total function psi)"""
    name = 'convectionTvdRHS/total'
    props = ('C13',)

    def setup(self, w):
        V, ps = parts(builder(adv, 'convectionTvdRHS', w.grid)(w.facevar('u'), w.rawcell('phi'), sym_limiter(w)))
        return dict(ps=ps)

    def claims(self, w, S, P, a):
        v = w.vec(S['ps'][a], P)
        if w.symbolic:
            ok = B.const(True)
            for den, guard in denominators(R.of(v)):
                ok = ok & (den != 0)
            return [('tvd_total[%s]' % AX[a], ok)]
        return [('tvd_total[%s]' % AX[a], math.isfinite(v))]


class CanarySuperbeeIsMinmod(_LimiterOb):
    name = 'canary/superbee_is_minmod'
    lname = 'SUPERBEE'
    canary = True

    def claims(self, w, S, P, part=None):
        r = self.r_of(w, P)
        return [('canary', w.eq(S['FL'](r), spec('MinMod', r, _Gen(w))))]
