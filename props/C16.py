"""C16 unsupported requests fail loudly, valid ones never do"""
from .common import jobs_for
LEVEL = 'proof'
LEVEL_TEXT = 'the request kind is enumerated exhaustively (9 grid classes x 6 coordinate labels x 3 holders get/set, 6 component labels get/set, constructor arities 0..7 with numbers / arrays, all 3^d periodic-flag patterns through boundaryConditionsTerm / the CellVariable constructor / apply_BCs, 11 initial-value shape families, BoundaryFace argument kinds, solvePDE term kinds) while sizes and contents stay symbolic: each traced call ends in the documented exception type, resp. returns normally for every N >= 1 (shape validity is decided per size region, e.g. shape 2N equals N+2 for N = 2)'
LEVEL_NOTE = 'exception types are those of the real classes raised by the traced real code; arguments of a documented arity but the wrong kind (numbers where face arrays are expected) are outside the property; the model raises numpy\'s exception types for shape errors (ValueError / IndexError), validated by the conformance runs'
NOT_MACHINE_CHECKED = ['the request kinds (labels, arities, shapes families, term kinds, periodic patterns) are enumerated exhaustively per grid class while N stays symbolic; request kinds outside these families are not covered']
MODULES = ['contracts.loud', 'contracts.solver']
TRUSTED = ['A1', 'A2', 'A5', 'A6']


def jobs(tier):
    return jobs_for('C16', MODULES, tier)
