"""C16: unsupported requests raise the documented exception type; every documented form is accepted (for all N >= 1:
the sizes stay symbolic, the request kind is enumerated exhaustively)."""
from .common import *
from .heap import flag
from .bc import make_bc, SIDES
from .solver import make_cellvar
from fvverif import trace as T
from fvverif.ints import OutOfReach, NeedSplit

COORD_LABELS = ('x', 'y', 'z', 'r', 'theta', 'phi')
COMP_LABELS = ('xvalue', 'yvalue', 'zvalue', 'rvalue', 'thetavalue', 'phivalue')
# the coordinate system of each class, from the class documentation (axis order)
SYSTEM = {
    'Grid1D': ('x',), 'Grid2D': ('x', 'y'), 'Grid3D': ('x', 'y', 'z'),
    'CylindricalGrid1D': ('r',), 'CylindricalGrid2D': ('r', 'z'), 'CylindricalGrid3D': ('r', 'theta', 'z'),
    'PolarGrid2D': ('r', 'theta'), 'SphericalGrid1D': ('r',), 'SphericalGrid3D': ('r', 'theta', 'phi'),
}


def outcome(thunk):
    try:
        r = thunk()
        return ('ok', r)
    except (OutOfReach, NeedSplit):
        raise
    except Exception as e:      # noqa: BLE001
        return (type(e).__name__, None)


class _EnumOb(Ob):
    props = ('C16',)

    def region(self, w):
        return []

    def points(self, w):
        return [()]


class CoordinateLabels(_EnumOb):
    """mesh.cellcenters / facecenters / cellsize: a coordinate is reachable exactly under the labels of the grid's
    coordinate system (get: the array of that axis; foreign label: AttributeError; set: AttributeError always)"""
    name = 'mesh.CellProp/labels_of_coordinate_system'
    props = ('C16', 'C10')

    def setup(self, w):
        m = w.mesh
        res = {}
        for holder in ('cellcenters', 'facecenters', 'cellsize'):
            obj = getattr(m, holder)
            for lab in COORD_LABELS:
                res[(holder, lab, 'get')] = outcome(lambda: getattr(obj, lab))
                res[(holder, lab, 'set')] = outcome(lambda: setattr(obj, lab, getattr(obj, '_x')))
        return dict(res=res, m=m)

    def claims(self, w, S, P, part=None):
        out = []
        sysm = SYSTEM[w.grid]
        m = S['m']
        for (holder, lab, mode), (kind, val) in S['res'].items():
            if mode == 'get':
                if lab in sysm:
                    want = getattr(getattr(m, holder), '_' + AX[sysm.index(lab)])
                    ok = kind == 'ok' and val is want
                else:
                    ok = kind == 'AttributeError'
            else:
                ok = kind == 'AttributeError'
            out.append(('%s.%s[%s]' % (holder, lab, mode), flag(w, ok)))
        return out


class ComponentLabels(_EnumOb):
    """FaceVariable.xvalue ... phivalue: get and set succeed exactly for the components of the grid's coordinate system
    and raise AttributeError otherwise"""
    name = 'FaceVariable/component_labels_of_coordinate_system'
    props = ('C16', 'C10')      # C10: "vector components are reachable only under the labels of that coordinate system"

    def setup(self, w):
        res = {}
        for lab in COMP_LABELS:
            fv = w.facevar('cf')
            res[(lab, 'get')] = outcome(lambda: getattr(fv, lab))
            fv2 = w.facevar('cg')
            before = (fv2._xvalue, fv2._yvalue, fv2._zvalue)
            marker = w.array('newcomp', (w.N[0] + 1,) if w.nd == 1 else tuple(w.face_shape(0)))
            k, _ = outcome(lambda: setattr(fv2, lab, marker))
            after = (fv2._xvalue, fv2._yvalue, fv2._zvalue)
            res[(lab, 'set')] = (k, [i for i in range(3) if after[i] is not before[i]], fv2, marker)
            res[(lab, 'getobj')] = fv
        return dict(res=res)

    def claims(self, w, S, P, part=None):
        out = []
        sysm = SYSTEM[w.grid]
        res = S['res']
        for lab in COMP_LABELS:
            base = lab[:-5]
            kind, val = res[(lab, 'get')]
            fv = res[(lab, 'getobj')]
            if base in sysm:
                comp = '_' + AX[sysm.index(base)] + 'value'
                ok = kind == 'ok' and val is getattr(fv, comp)
            else:
                ok = kind == 'AttributeError'
            out.append(('%s[get]' % lab, flag(w, ok)))
            k, changed, fv2, marker = res[(lab, 'set')]
            if base in sysm:
                ok = k == 'ok' and changed == [sysm.index(base)] and getattr(fv2, '_' + AX[sysm.index(base)] + 'value') is marker
            else:
                ok = k == 'AttributeError' and changed == []
            out.append(('%s[set]' % lab, flag(w, ok)))
        return out


class ConstructorArity(_EnumOb):
    """mesh constructors: the documented forms are accepted for symbolic N >= 1; every other arity 0..7 (integers or
    arrays) raises TypeError"""
    name = 'mesh.__init__/arity_typeerror'

    def setup(self, w):
        cls = getattr(pf, w.grid)
        nd = w.nd
        res = {}
        for k in range(0, 8):
            for kind in ('numbers', 'arrays'):
                # arity is the subject: combinations that have a documented arity but the wrong kind of argument
                # (numbers where face arrays are expected and vice versa) are a different kind of misuse
                if (kind == 'numbers' and k == nd) or (kind == 'arrays' and k == 2 * nd) or k == 6:
                    continue      # k == 6 is the documented internal form (dims, cellsize, cellcenters, ...)
                if kind == 'numbers':
                    if w.symbolic:
                        args = [w.N[j % nd] if j < nd else w.scalar('L%d' % j, 'pos') for j in range(k)]
                        if k != 2 * nd:
                            args = [w.N[j % nd] for j in range(k)]
                    else:
                        args = [int(w.N[j % nd]) if (j < nd or k != 2 * nd) else 1.0 + j for j in range(k)]
                else:
                    if w.symbolic:
                        args = [w.src.arr('fa%d' % j, (w.N[j % nd] + 1,)) for j in range(k)]
                    else:
                        T.make_mesh(w.src, w.grid)
                        args = [w.src.values['f' + AX[j % nd]].astype(float) for j in range(k)]
                valid = (kind == 'numbers' and k == 2 * nd) or (kind == 'arrays' and k == nd)
                if nd == 3 and kind == 'numbers' and k == 6:
                    valid = True
                res[(k, kind)] = (outcome(lambda: cls(*args))[0], valid)
        return dict(res=res)

    def claims(self, w, S, P, part=None):
        out = []
        for (k, kind), (got, valid) in S['res'].items():
            ok = (got == 'ok') if valid else (got == 'TypeError')
            out.append(('arity_%d_%s' % (k, kind), flag(w, ok)))
        return out


class RadialPeriodic(_EnumOb):
    """periodic conditions on a radial boundary raise ValueError from every public entry point that (re)computes the
    boundary equations, also in combination with other periodic axes; periodic non-radial axes are accepted"""
    name = 'boundary/radial_periodic_valueerror'

    def setup(self, w):
        res = {}
        nd = w.nd
        radial = GRIDS[w.grid]['radial']
        import itertools
        for pat in itertools.product('nlr', repeat=nd):
            pat = ''.join(pat)
            bad = radial and pat[0] != 'n'

            def term():
                BC, _ = make_bc(w, pat)
                return bnd.boundaryConditionsTerm(BC)

            def ctor():
                BC, _ = make_bc(w, pat)
                return cel.CellVariable(w.mesh, w.array('v', tuple(w.N)), BC)

            def toggle():
                cv, _ = make_cellvar(w, 'v2')
                for a in range(nd):
                    if pat[a] == 'l':
                        getattr(cv.BCs, SIDES[a][0]).periodic = True
                    elif pat[a] == 'r':
                        getattr(cv.BCs, SIDES[a][1]).periodic = True
                cv.apply_BCs()
                return cv
            res[pat] = (bad, outcome(term)[0], outcome(ctor)[0], outcome(toggle)[0])
        return dict(res=res)

    def claims(self, w, S, P, part=None):
        out = []
        for pat, (bad, a, b, c) in S['res'].items():
            want = 'ValueError' if bad else 'ok'
            out.append(('boundaryConditionsTerm{%s}' % pat, flag(w, a == want)))
            out.append(('CellVariable(...){%s}' % pat, flag(w, b == want)))
            out.append(('apply_BCs{%s}' % pat, flag(w, c == want)))
        return out


class InitialValueShapes(_EnumOb):
    """CellVariable(mesh, value): scalar, size-1 array, array of the grid's shape, array incl. ghost cells are accepted;
    every other shape raises ValueError"""
    name = 'CellVariable.__init__/shape_dispatch_valueerror'

    def setup(self, w):
        N = w.N
        nd = w.nd
        good = {'scalar': None, 'dims': tuple(N), 'dims+2': tuple(n + 2 for n in N), 'size1': (1,) * nd}
        badshapes = {'dims+1': tuple(n + 1 for n in N), 'dims+3': tuple(n + 3 for n in N),
                     'first+2 only': (N[0] + 2,) + tuple(N[1:]) if nd > 1 else (N[0] + 4,),
                     'rank+1': tuple(N) + (2,), 'rank-1': tuple(N[:-1]) if nd > 1 else (),
                     'transposed+1': tuple(reversed([n + (1 if j == 0 else 0) for j, n in enumerate(N)])),
                     'twice': tuple(2 * n for n in N)}
        res = {}
        allshapes = dict(good)
        allshapes.update(badshapes)
        for k, shp in allshapes.items():
            if shp == ():
                continue
            nm = 'val_' + k.replace('+', 'p').replace(' ', '_').replace('-', 'm')
            v = w.scalar('c0') if shp is None else w.array(nm, shp)
            res[k] = (outcome(lambda: cel.CellVariable(w.mesh, v))[0], shp)
        return dict(res=res)

    def _valid(self, w, shp):
        """documented: scalar, one element, the grid's shape, the grid's shape incl. ghost cells"""
        if shp is None:
            return True
        N = w.N
        if w.symbolic:
            from fvverif.arrays import iprod
            def same(a, b):
                return len(a) == len(b) and all(CTX.decide(I(x) == I(y)) for x, y in zip(a, b))
            return CTX.decide(iprod(shp) == 1) or same(shp, tuple(N)) or same(shp, tuple(n + 2 for n in N))
        import math
        return math.prod(shp) == 1 or tuple(shp) == tuple(N) or tuple(shp) == tuple(n + 2 for n in N)

    def claims(self, w, S, P, part=None):
        out = []
        for k, (got, shp) in S['res'].items():
            valid = self._valid(w, shp)
            out.append(('shape[%s]' % k, flag(w, (got == 'ok') if valid else (got == 'ValueError'))))
        return out


class BoundaryFaceNonArray(_EnumOb):
    name = 'BoundaryFace/non_array_typeerror'
    grids = ('Grid1D', 'Grid3D')

    def setup(self, w):
        one = w.np.ones(3)
        res = {}
        for k, args in {'floats': (1.0, 0.0, 0.0), 'lists': ([1.0], [0.0], [0.0]), 'mixed': (one, 0.0, one),
                        'none': (None, None, None), 'arrays': (one, one, one)}.items():
            res[k] = outcome(lambda: bnd.BoundaryFace(*args))[0]
        return dict(res=res)

    def claims(self, w, S, P, part=None):
        return [('BoundaryFace(%s)' % k, flag(w, got == ('ok' if k == 'arrays' else 'TypeError'))) for k, got in S['res'].items()]


class TermKindsAccepted(_EnumOb):
    """every documented term kind is accepted by solvePDE on every grid class for symbolic N >= 1"""
    name = 'solvePDE/documented_term_kinds_accepted'
    props = ('C16', 'C04')

    def setup(self, w):
        from .solver import _term_zoo
        z = _term_zoo(w)
        res = {}
        for k, terms in {'matrix': [z['Md']], 'vector': [z['Rg']], 'pair': [(z['Ms'], z['Rg'])],
                         'negated': [-z['Md'], -z['Rg']], 'scaled': [2.0 * z['Mu'], 0.5 * z['Rg']], 'empty': []}.items():
            phi, _ = make_cellvar(w, 'p_' + k)
            res[k] = outcome(lambda: pde.solvePDE(phi, terms))[0]
        return dict(res=res)

    def claims(self, w, S, P, part=None):
        return [('accepted[%s]' % k, flag(w, got == 'ok')) for k, got in S['res'].items()]


class TvdMeanNotImplemented(_EnumOb):
    """averaging.tvdMean is documented as not implemented: it must raise instead of returning numbers"""
    name = 'tvdMean/raises_not_implemented'
    props = ('C16', 'C11')
    grids = ('Grid1D', 'Grid2D', 'Grid3D')

    def setup(self, w):
        phi, _ = make_cellvar(w, 'phi0')
        u = w.facevar('u')
        return dict(got=outcome(lambda: avg.tvdMean(phi, u, (lambda r: r)))[0])

    def claims(self, w, S, P, part=None):
        return [('raises', flag(w, S['got'] != 'ok'))]


class FaceVariableForms(_EnumOb):
    """FaceVariable(mesh, scalar), FaceVariable(mesh, [vx, vy, vz]) and FaceVariable(mesh, xarr, yarr, zarr): every
    documented constructor form is accepted on every grid class and fills the components of the grid's axes with the
    value given FOR THAT AXIS (faces normal to axis a: shape N with N_a + 1 along a)"""
    name = 'FaceVariable.__init__/forms_fill_the_right_components'
    props = ('C16', 'C10', 'C14')

    def region(self, w):
        return w.interior()

    def points(self, w):
        return w.interior_points()

    def setup(self, w):
        s = w.scalar('fs')
        vec = [w.scalar('fv%d' % a) for a in range(w.nd)]
        out = dict(s=s, vec=vec)
        out['k_scalar'], out['scalar'] = outcome(lambda: fac.FaceVariable(w.mesh, s))
        out['k_vec'], out['vecv'] = outcome(lambda: fac.FaceVariable(w.mesh, list(vec)))
        return out

    def claims(self, w, S, P, part=None):
        res = [('scalar_form_accepted', flag(w, S['k_scalar'] == 'ok')), ('list_form_accepted', flag(w, S['k_vec'] == 'ok'))]
        if S['k_scalar'] == 'ok' and S['k_vec'] == 'ok':
            for a in range(w.nd):
                comp = '_' + AX[a] + 'value'
                fidx = face_idx(P, a, 1)
                res.append(('scalar_form_component[%s]' % AX[a], w.eq(w.at(getattr(S['scalar'], comp), fidx), S['s'])))
                res.append(('list_form_component[%s]' % AX[a], w.eq(w.at(getattr(S['vecv'], comp), fidx), S['vec'][a])))
        return res
