"""Heap observations shared by the C14 / C15 contracts: which buffers are reachable from an object graph, which
were written during a call, whether a result aliases its inputs -- in the symbolic world from the model's buffer
ids and write log, natively from snapshots and numpy.shares_memory."""
import copy
from .common import *
from fvverif import trace as T
from fvverif.arrays import SymNDArray
from fvverif.npshim import SymSparse

_PF_TYPES = None


def _pf_types():
    global _PF_TYPES
    if _PF_TYPES is None:
        _PF_TYPES = (msh.MeshStructure, msh.CellProp, cel.CellVariable, fac.FaceVariable, bnd.BoundaryConditionsBase,
                     bnd.BoundaryFace, T.RawCell)
    return _PF_TYPES


def arrays_of(obj, seen=None, path='', out=None):
    """[(path, array)] of every numpy / model array reachable from obj through pyfvtool objects and containers"""
    if out is None:
        out = []
        seen = set()
    if id(obj) in seen:
        return out
    seen.add(id(obj))
    if isinstance(obj, (SymNDArray, T.real_np.ndarray)):
        out.append((path, obj))
        return out
    if isinstance(obj, (list, tuple)):
        for j, x in enumerate(obj):
            arrays_of(x, seen, '%s[%d]' % (path, j), out)
        return out
    if hasattr(obj, 'toarray') and isinstance(getattr(obj, 'data', None), T.real_np.ndarray):
        out.append((path + '.data', obj.data))      # scipy sparse result: its value storage may alias an input
        return out
    if isinstance(obj, dict):
        for k, x in obj.items():
            arrays_of(x, seen, '%s[%r]' % (path, k), out)
        return out
    if isinstance(obj, _pf_types()):
        for k, x in vars(obj).items():
            if k == 'domain' and path != '':
                continue        # the mesh a variable / BC object lives on is shared by design
            arrays_of(x, seen, '%s.%s' % (path, k), out)
        return out
    return out


def attr_ids(obj, seen=None, path='', out=None):
    """identity map of the attributes of every pyfvtool object reachable from obj (detects re-binding)"""
    if out is None:
        out = {}
        seen = set()
    if id(obj) in seen:
        return out
    seen.add(id(obj))
    if isinstance(obj, (list, tuple)):
        for j, x in enumerate(obj):
            attr_ids(x, seen, '%s[%d]' % (path, j), out)
    elif isinstance(obj, _pf_types()):
        for k, x in vars(obj).items():
            out['%s.%s' % (path, k)] = id(x) if not isinstance(x, (bool, int, float, str, type(None))) else ('v', x)
            attr_ids(x, seen, '%s.%s' % (path, k), out)
    return out


class Frame:
    """observe one call: Frame(w, inputs) ... f.done(result) -> dict(written, rebound, aliased)"""

    def __init__(self, w, inputs):
        self.w = w
        self.inputs = inputs
        self.arrs = arrays_of(inputs)
        self.ids0 = attr_ids(inputs)
        # dirty bits of the tracked arrays reachable from the inputs: a builder must not raise OR clear them
        self.flags0 = {p_: bool(getattr(a_, '_modified')) for p_, a_ in self.arrs if hasattr(a_, '_modified')}
        if w.symbolic:
            self.bufs = {a.buf.id: p for p, a in self.arrs}
            self.n0 = len(CTX.writes)
        else:
            self.snap = [(p, a, a.copy()) for p, a in self.arrs]

    def done(self, result, allowed_paths=()):
        w = self.w
        written, aliased = [], []
        rebound = [k for k, v in attr_ids(self.inputs).items() if self.ids0.get(k, v) != v
                   and not any(k.startswith(ap) for ap in allowed_paths)]
        for p_, a_ in self.arrs:
            if p_ in self.flags0 and hasattr(a_, '_modified') and bool(a_._modified) != self.flags0[p_] \
                    and not any(p_.startswith(ap) for ap in allowed_paths):
                rebound.append('dirty-bit:%s %s->%s' % (p_, self.flags0[p_], bool(a_._modified)))
        res_arrs = arrays_of(result, path='result')
        if w.symbolic:
            for bid, how in CTX.writes[self.n0:]:
                if bid in self.bufs and not any(self.bufs[bid].startswith(ap) for ap in allowed_paths):
                    written.append((self.bufs[bid], how))
            for p, a in res_arrs:
                if a.buf.id in self.bufs:
                    aliased.append((p, self.bufs[a.buf.id]))
        else:
            np_ = T.real_np
            for p, a, c in self.snap:
                same = (a.shape == c.shape) and bool(np_.all((a == c) | ((a != a) & (c != c))))
                if not same and not any(p.startswith(ap) for ap in allowed_paths):
                    written.append((p, 'changed'))
            for p, a in res_arrs:
                for q, b in self.arrs:
                    if a.size and b.size and np_.shares_memory(a, b):
                        aliased.append((p, q))
        return dict(written=written, rebound=rebound, aliased=aliased)


def flag(w, ok):
    return B.const(bool(ok)) if w.symbolic else bool(ok)
