"""C08 redundant axes, axis relabelling, mirroring"""
from .common import jobs_for
LEVEL = 'proof'
LEVEL_TEXT = 'relational obligations between two different real builders: for data constant along a coordinate, every axis part of diffusion, central, upwind, TVD and divergence terms on the higher-dimensional grid equals, at a symbolic cell, the corresponding part on the reduced grid and the part of the redundant axis vanishes (all 9 embedding pairs Grid3D-Grid2D-Grid1D, CylindricalGrid3D-CylindricalGrid2D/PolarGrid2D-CylindricalGrid1D, incl. which axis is dropped); ghost values embed likewise; swapping two Cartesian axes permutes and reflecting an axis (velocity component reversed) mirrors every term'
LEVEL_NOTE = 'equality of the solutions follows from equality of the assembled rows and uniqueness (A4), several time steps by induction; cyclic shifts along a periodic uniform axis are not claimed: the upwind term is not shift-invariant across a periodic boundary (recorded finding upwind-periodic-not-conservative) and no separate obligation was built for the other terms'
NOT_MACHINE_CHECKED = ['cyclic shift of data along a periodic uniform axis shifts the solution']
MODULES = ['contracts.embed']
TRUSTED = ['A1', 'A2', 'A4', 'A5', 'A6', 'UF']


def jobs(tier):
    return jobs_for('C08', MODULES, tier)


def extra(tier, seed):
    from fvverif.lean import lemma_status
    ok, detail = lemma_status(['unique_solution', 'invariant_iterate'], rebuild=(tier == 'thorough'))
    return [('lean lemmas unique_solution/invariant_iterate: operator-level embedding / permutation / mirror identities (SMT) + uniqueness => solutions correspond; several steps by iteration', ok, 'lean:' + detail)]
