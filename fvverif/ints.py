"""Symbolic integers: polynomials over size / index symbols with integer coefficients, LIA conditions,
and the decision context (path/region assumptions, z3 Int solver, forking by NeedSplit).

Atoms of a polynomial are either plain symbol names (str) or `Lin` atoms: the C-order linear index of a
multi-index w.r.t. a shape (so that no div/mod by a symbolic size is ever needed)."""
from fractions import Fraction
import itertools
import z3


class OutOfReach(Exception):
    """The traced code did something the symbolic model cannot follow (tool limit, never a verdict)."""


class NeedSplit(Exception):
    """An integer (or trace-level real) condition is not decided by the current assumptions."""
    def __init__(self, cond):
        super().__init__(str(cond))
        self.cond = cond


class Lin:
    """C-order linear index of multi-index `idx` in an array of shape `shape` (both tuples of IExpr)."""
    __slots__ = ('shape', 'idx', '_h', '_key')

    def __init__(self, shape, idx):
        self.shape = tuple(I(s) for s in shape)
        self.idx = tuple(I(i) for i in idx)
        self._key = ('Lin', tuple(s.key() for s in self.shape), tuple(i.key() for i in self.idx))
        self._h = hash(self._key)

    def __hash__(self):
        return self._h

    def __eq__(self, o):
        return isinstance(o, Lin) and self._key == o._key

    def __repr__(self):
        return 'Lin[%s](%s)' % (','.join(map(str, self.shape)), ','.join(map(str, self.idx)))

    def sort_key(self):
        return (1, self._key)


def _atom_key(a):
    return (0, a) if isinstance(a, str) else a.sort_key()


class IExpr:
    """Integer polynomial.  terms: {monomial: coeff}, monomial = tuple of (atom, power) sorted."""
    __slots__ = ('terms', '_h')

    def __init__(self, terms):
        self.terms = {m: c for m, c in terms.items() if c != 0}
        self._h = None

    # ---- construction helpers
    @staticmethod
    def const(c):
        return IExpr({(): int(c)})

    @staticmethod
    def sym(name):
        return IExpr({((name, 1),): 1})

    def is_const(self):
        return all(m == () for m in self.terms)

    def const_value(self):
        assert self.is_const()
        return self.terms.get((), 0)

    def atoms(self):
        s = set()
        for m in self.terms:
            for a, _ in m:
                s.add(a)
        return s

    def is_affine(self):
        return all(len(m) == 0 or (len(m) == 1 and m[0][1] == 1) for m in self.terms)

    def coeff(self, atom):
        """coefficient of the degree-1 monomial `atom` (0 if absent)."""
        return self.terms.get(((atom, 1),), 0)

    def as_lin(self):
        """If the polynomial is exactly 1*Lin (+0) return that Lin atom, else None."""
        if len(self.terms) == 1:
            (m, c), = self.terms.items()
            if c == 1 and len(m) == 1 and m[0][1] == 1 and isinstance(m[0][0], Lin):
                return m[0][0]
        return None

    def subst(self, mapping):
        """Substitute atoms (str) by IExpr/int.  Lin atoms have their idx substituted recursively."""
        res = IExpr({})
        for m, c in self.terms.items():
            t = IExpr.const(c)
            for a, p in m:
                if isinstance(a, Lin):
                    a2 = Lin([s.subst(mapping) for s in a.shape], [i.subst(mapping) for i in a.idx])
                    base = IExpr({((a2, 1),): 1})
                elif a in mapping:
                    base = I(mapping[a])
                else:
                    base = IExpr({((a, 1),): 1})
                for _ in range(p):
                    t = t * base
            res = res + t
        return res

    # ---- arithmetic
    def __add__(self, o):
        o = _coerce(o)
        if o is NotImplemented:
            return NotImplemented
        t = dict(self.terms)
        for m, c in o.terms.items():
            t[m] = t.get(m, 0) + c
        return IExpr(t)
    __radd__ = __add__

    def __neg__(self):
        return IExpr({m: -c for m, c in self.terms.items()})

    def __pos__(self):
        return self

    def __sub__(self, o):
        o = _coerce(o)
        if o is NotImplemented:
            return NotImplemented
        return self + (-o)

    def __rsub__(self, o):
        o = _coerce(o)
        if o is NotImplemented:
            return NotImplemented
        return o + (-self)

    def __mul__(self, o):
        o = _coerce(o)
        if o is NotImplemented:
            return NotImplemented
        t = {}
        for m1, c1 in self.terms.items():
            for m2, c2 in o.terms.items():
                d = dict(m1)
                for a, p in m2:
                    d[a] = d.get(a, 0) + p
                m = tuple(sorted(d.items(), key=lambda ap: _atom_key(ap[0])))
                t[m] = t.get(m, 0) + c1 * c2
        return IExpr(t)
    __rmul__ = __mul__

    def __pow__(self, n):
        if isinstance(n, IExpr) and n.is_const():
            n = n.const_value()
        if not isinstance(n, int) or n < 0:
            return NotImplemented
        r = IExpr.const(1)
        for _ in range(n):
            r = r * self
        return r

    def __floordiv__(self, o):
        o = _coerce(o)
        if o is not NotImplemented and o.is_const() and o.const_value() != 0:
            d = o.const_value()
            if all(c % d == 0 for c in self.terms.values()):
                return IExpr({m: c // d for m, c in self.terms.items()})
        raise OutOfReach('floor division of symbolic integer %s // %s' % (self, o))

    def __truediv__(self, o):
        from .reals import R
        return R.of(self) / R.of(o)

    def __rtruediv__(self, o):
        from .reals import R
        return R.of(o) / R.of(self)

    # ---- comparisons give ICond
    def __eq__(self, o):
        o2 = _coerce(o)
        if o2 is NotImplemented:
            return NotImplemented
        return ICond(self - o2, 'eq')

    def __ne__(self, o):
        o2 = _coerce(o)
        if o2 is NotImplemented:
            return NotImplemented
        return ICond(self - o2, 'ne')

    def __ge__(self, o):
        o2 = _coerce(o)
        if o2 is NotImplemented:
            return NotImplemented
        return ICond(self - o2, 'ge')

    def __gt__(self, o):
        o2 = _coerce(o)
        if o2 is NotImplemented:
            return NotImplemented
        return ICond(self - o2 - 1, 'ge')

    def __le__(self, o):
        o2 = _coerce(o)
        if o2 is NotImplemented:
            return NotImplemented
        return ICond(o2 - self, 'ge')

    def __lt__(self, o):
        o2 = _coerce(o)
        if o2 is NotImplemented:
            return NotImplemented
        return ICond(o2 - self - 1, 'ge')

    def same(self, o):
        """syntactic identity of polynomials"""
        o = _coerce(o)
        return self.terms == o.terms

    def key(self):
        return tuple(sorted(((tuple((_atom_key(a), p) for a, p in m), c) for m, c in self.terms.items())))

    def __hash__(self):
        if self._h is None:
            self._h = hash(self.key())
        return self._h

    # concretisation is forbidden
    def __index__(self):
        if self.is_const():
            return self.const_value()
        raise OutOfReach('concretisation of symbolic integer %s (__index__)' % self)

    def __int__(self):
        return self.__index__()

    def __float__(self):
        if self.is_const():
            return float(self.const_value())
        raise OutOfReach('concretisation of symbolic integer %s (__float__)' % self)

    def __bool__(self):
        return bool(self != 0)

    def __repr__(self):
        if not self.terms:
            return '0'
        parts = []
        for m, c in sorted(self.terms.items(), key=lambda mc: (len(mc[0]), repr(mc[0]))):
            ms = '*'.join((str(a) if p == 1 else '%s^%d' % (a, p)) for a, p in m)
            if not ms:
                parts.append(str(c))
            elif c == 1:
                parts.append(ms)
            elif c == -1:
                parts.append('-' + ms)
            else:
                parts.append('%d*%s' % (c, ms))
        return '+'.join(parts).replace('+-', '-')


def _coerce(o):
    if isinstance(o, IExpr):
        return o
    if isinstance(o, bool):
        return IExpr.const(int(o))
    if isinstance(o, int):
        return IExpr.const(o)
    try:
        import numpy as _np
        if isinstance(o, _np.integer):
            return IExpr.const(int(o))
    except Exception:
        pass
    return NotImplemented


def I(x):
    r = _coerce(x)
    if r is NotImplemented:
        raise TypeError('not an integer term: %r' % (x,))
    return r


def is_int_like(x):
    return _coerce(x) is not NotImplemented


def same(a, b):
    return I(a).same(I(b))


class ICond:
    """poly >= 0 | poly == 0 | poly != 0, or a conjunction / disjunction / negation of those."""
    __slots__ = ('poly', 'op', 'args')

    def __init__(self, poly, op, args=None):
        self.poly = poly
        self.op = op            # 'ge','eq','ne','and','or','true','false'
        self.args = args
        if op in ('ge', 'eq', 'ne') and poly.is_const():
            v = poly.const_value()
            val = (v >= 0) if op == 'ge' else (v == 0) if op == 'eq' else (v != 0)
            self.op = 'true' if val else 'false'
            self.poly = None

    @staticmethod
    def true():
        return ICond(None, 'true')

    @staticmethod
    def false():
        return ICond(None, 'false')

    def is_true(self):
        return self.op == 'true'

    def is_false(self):
        return self.op == 'false'

    def neg(self):
        if self.op == 'true':
            return ICond.false()
        if self.op == 'false':
            return ICond.true()
        if self.op == 'ge':
            return ICond(-self.poly - 1, 'ge')
        if self.op == 'eq':
            return ICond(self.poly, 'ne')
        if self.op == 'ne':
            return ICond(self.poly, 'eq')
        if self.op == 'and':
            return ICond(None, 'or', tuple(a.neg() for a in self.args))
        if self.op == 'or':
            return ICond(None, 'and', tuple(a.neg() for a in self.args))
        raise AssertionError

    def __and__(self, o):
        o = as_icond(o)
        if self.is_false() or o.is_false():
            return ICond.false()
        if self.is_true():
            return o
        if o.is_true():
            return self
        return ICond(None, 'and', (self, o))

    def __or__(self, o):
        o = as_icond(o)
        if self.is_true() or o.is_true():
            return ICond.true()
        if self.is_false():
            return o
        if o.is_false():
            return self
        return ICond(None, 'or', (self, o))

    def __invert__(self):
        return self.neg()

    def key(self):
        if self.op in ('true', 'false'):
            return (self.op,)
        if self.op in ('and', 'or'):
            return (self.op,) + tuple(a.key() for a in self.args)
        return (self.op, self.poly.key())

    def atoms(self):
        if self.op in ('true', 'false'):
            return set()
        if self.op in ('and', 'or'):
            s = set()
            for a in self.args:
                s |= a.atoms()
            return s
        return self.poly.atoms()

    def subst(self, mapping):
        if self.op in ('true', 'false'):
            return self
        if self.op in ('and', 'or'):
            r = None
            for a in self.args:
                a2 = a.subst(mapping)
                r = a2 if r is None else ((r & a2) if self.op == 'and' else (r | a2))
            return r
        return ICond(self.poly.subst(mapping), self.op)

    def __bool__(self):
        return CTX.decide(self)

    def __repr__(self):
        if self.op in ('true', 'false'):
            return self.op
        if self.op in ('and', 'or'):
            return '(' + (' %s ' % self.op).join(map(repr, self.args)) + ')'
        return '%s %s 0' % (self.poly, {'ge': '>=', 'eq': '==', 'ne': '!='}[self.op])


def as_icond(x):
    if isinstance(x, ICond):
        return x
    if isinstance(x, bool):
        return ICond.true() if x else ICond.false()
    raise TypeError('not an integer condition: %r' % (x,))


# ------------------------------------------------------------------------------------------------
#  z3 translation (LIA; nonlinear monomials and Lin atoms become opaque Int constants)

class _Z3Ints:
    def __init__(self):
        self.atom_vars = {}
        self.mono_vars = {}
        self.cond_cache = {}

    def atom(self, a):
        v = self.atom_vars.get(a)
        if v is None:
            v = z3.Int('i!%d!%s' % (len(self.atom_vars), a if isinstance(a, str) else 'lin'))
            self.atom_vars[a] = v
        return v

    def poly(self, p):
        s = z3.IntVal(0)
        for m, c in p.terms.items():
            if m == ():
                s = s + c
            elif len(m) == 1 and m[0][1] == 1:
                s = s + c * self.atom(m[0][0])
            else:
                v = self.mono_vars.get(m)
                if v is None:
                    v = z3.Int('m!%d' % len(self.mono_vars))
                    self.mono_vars[m] = v
                s = s + c * v
        return s

    def cond(self, c):
        k = c.key()
        r = self.cond_cache.get(k)
        if r is None:
            r = self._cond(c)
            self.cond_cache[k] = r
        return r

    def _cond(self, c):
        if c.op == 'true':
            return z3.BoolVal(True)
        if c.op == 'false':
            return z3.BoolVal(False)
        if c.op == 'and':
            return z3.And(*[self.cond(a) for a in c.args])
        if c.op == 'or':
            return z3.Or(*[self.cond(a) for a in c.args])
        p = self.poly(c.poly)
        return p >= 0 if c.op == 'ge' else p == 0 if c.op == 'eq' else p != 0


class LevelCache:
    """one dict per assumption level; a value stored at level k is valid at every deeper level (entailment and
    everything computed from entailed decisions is monotone in the assumptions)"""
    __slots__ = ('levels',)

    def __init__(self):
        self.levels = [{}]

    def push(self):
        self.levels.append({})

    def pop(self):
        self.levels.pop()

    def clear(self):
        self.levels = [{}]

    def get(self, k, default=None):
        for d in reversed(self.levels):
            v = d.get(k, _MISSING)
            if v is not _MISSING:
                return v
        return default

    def __contains__(self, k):
        return any(k in d for d in self.levels)

    def __getitem__(self, k):
        for d in reversed(self.levels):
            if k in d:
                return d[k]
        raise KeyError(k)

    def __setitem__(self, k, v):
        self.levels[-1][k] = v

    def top_get(self, k, default=None):
        return self.levels[-1].get(k, default)


_MISSING = object()


class Context:
    """Assumption stack + LIA solver + per-evaluation memo.  One global instance (CTX)."""

    def __init__(self):
        self.reset()

    def reset(self):
        self.z = _Z3Ints()
        self.solver = z3.Solver()
        self.solver.set('timeout', 20000)
        self.assumptions = []        # list of ICond
        self.cache = LevelCache()    # monotone facts: ('E', cond) -> True
        self.neg = LevelCache()      # non-monotone facts, valid at the level they were stored only (top_get)
        self.memo = LevelCache()
        self.stats = {'lia_queries': 0, 'splits': 0}
        self.level = 0
        self.writes = []             # heap write log (buffer ids), filled by arrays.Buffer
        self.events = []
        self.trace_fork = None       # TraceFork while a function is being traced
        self.loop = None             # LoopCtx while a loop body is executed on a generic iteration
        self.safety = []             # safety obligations collected during evaluation

    # --- assumptions
    def push(self, conds):
        self.solver.push()
        self.level += 1
        self.cache.push()
        self.neg.push()
        self.memo.push()
        n = 0
        for c in conds:
            self.assumptions.append(c)
            self._add(c)
            n += 1
        return n

    def pop(self, n):
        self.solver.pop()
        self.level -= 1
        self.cache.pop()
        self.neg.pop()
        self.memo.pop()
        if n:
            del self.assumptions[-n:]

    def assume(self, c):
        """permanent (until reset) assumption, e.g. N >= 1"""
        self.assumptions.append(c)
        self._add(c)
        self.cache.clear()
        self.neg.clear()
        self.memo.clear()

    def _add(self, c):
        for ax in self._mono_axioms(c):
            self.solver.add(ax)
        self.solver.add(self.z.cond(c))

    def _mono_axioms(self, c):
        """nonlinear monomials are opaque Int constants; sound facts about products of factors that are >= 1 (sizes)
        are returned as z3 constraints (added by the caller at the level where they are needed):
        p = a*b  =>  p >= a, p >= b, (a == 1 -> p == b), (b == 1 -> p == a)   -- via a chain of binary products"""
        out = []
        for p in self._polys(c):
            for m in p.terms:
                if len(m) > 1 or (len(m) == 1 and m[0][1] > 1):
                    out += self._product_axioms(m)
        return out

    def _product_axioms(self, m):
        factors = []
        for a, k in m:
            factors += [a] * k
        out = []
        acc_key = ((factors[0], 1),)
        acc_var = self.z.atom(factors[0])
        out.append(acc_var >= 1) if isinstance(factors[0], str) and factors[0] in ('Nx', 'Ny', 'Nz') else None
        for f in factors[1:]:
            d = dict(acc_key)
            d[f] = d.get(f, 0) + 1
            new_key = tuple(sorted(d.items(), key=lambda ap: _atom_key(ap[0])))
            self.z.poly(IExpr({new_key: 1}))
            pv = self.z.mono_vars[new_key]
            fv = self.z.atom(f)
            if all(isinstance(x, str) and x in ('Nx', 'Ny', 'Nz') for x in factors):
                out += [pv >= acc_var, pv >= fv, z3.Implies(acc_var == 1, pv == fv), z3.Implies(fv == 1, pv == acc_var),
                        pv >= 1]
            acc_key, acc_var = new_key, pv
        return out

    def _polys(self, c):
        if c.op in ('and', 'or'):
            for a in c.args:
                yield from self._polys(a)
        elif c.poly is not None:
            yield c.poly

    # --- decisions
    def entails(self, c):
        """True iff the assumptions entail c (no split)."""
        c = as_icond(c)
        if c.is_true():
            return True
        if c.is_false():
            return self.infeasible()
        k = ('E', c.key())
        if self.cache.get(k) is True:
            return True
        if self.neg.top_get(k) is False:
            return False
        self.stats['lia_queries'] += 1
        self.solver.push()
        for ax in self._mono_axioms(c):
            self.solver.add(ax)
        self.solver.add(z3.Not(self.z.cond(c)))
        res = self.solver.check()
        self.solver.pop()
        r = (res == z3.unsat)
        if r:
            self.cache[k] = True
        else:
            self.neg[k] = False
        return r

    def infeasible(self):
        k = ('INF',)
        if self.cache.get(k) is True:
            return True
        if self.neg.top_get(k) is False:
            return False
        self.stats['lia_queries'] += 1
        r = (self.solver.check() == z3.unsat)
        if r:
            self.cache[k] = True
        else:
            self.neg[k] = False
        return r

    def decide(self, c):
        """bool of c if entailed / refuted by the assumptions, else raise NeedSplit."""
        c = as_icond(c)
        if c.is_true():
            return True
        if c.is_false():
            return False
        if self.entails(c):
            return True
        if self.entails(c.neg()):
            return False
        if self.loop is not None and self.loop.itname in {a for a in c.atoms() if isinstance(a, str)}:
            return self.loop.decide_int(c)
        raise NeedSplit(c)

    def possible(self, c):
        return not self.entails(as_icond(c).neg())

    def model_ints(self, extra=()):
        """a model of the current assumptions (dict atom->int) or None"""
        self.solver.push()
        for c in extra:
            self.solver.add(self.z.cond(c))
        res = self.solver.check()
        m = None
        if res == z3.sat:
            mod = self.solver.model()
            m = {}
            for a, v in self.z.atom_vars.items():
                val = mod.eval(v, model_completion=True)
                m[a] = val.as_long()
        self.solver.pop()
        return m


CTX = Context()


def explore(fn, base=(), max_leaves=4000):
    """Run fn() under assumption sets obtained by splitting on every undecided condition (depth-first, with
    nested assumption levels so that decisions and element values computed higher up are reused).
    Returns list of (assumptions_tuple, result).  Infeasible regions are dropped."""
    leaves = []
    path = list(base)

    def rec():
        if CTX.infeasible():
            return
        split = None
        lvl = CTX.level
        try:
            res = fn()
        except NeedSplit as e:
            split = e.cond
        # (the except block is left before recursing so that frames / generators of the aborted run are released)
        if split is not None:
            import gc
            if CTX.level != lvl:
                gc.collect()
            if CTX.level != lvl:
                raise OutOfReach('assumption levels out of balance after an aborted trace')
            CTX.stats['splits'] += 1
            for c in (split, split.neg()):
                n = CTX.push([c])
                path.append(c)
                try:
                    rec()
                finally:
                    path.pop()
                    CTX.pop(n)
            return
        leaves.append((tuple(path), res))
        if len(leaves) > max_leaves:
            raise OutOfReach('more than %d leaves' % max_leaves)
    n = CTX.push(base)
    try:
        rec()
    finally:
        CTX.pop(n)
    return leaves


class TraceFork:
    """decision script for data-dependent branches (bool() of a symbolic real condition) in traced code"""
    def __init__(self, script):
        self.script = list(script)
        self.pos = 0
        self.conds = []
        self.fresh_from = len(script)

    def decide_real(self, b):
        if self.pos < len(self.script):
            d = self.script[self.pos]
        else:
            d = True
            self.script.append(True)
        self.pos += 1
        self.conds.append(b if d else ~b)
        return d


def run_forked(fn, max_paths=64):
    """execute fn() once per feasible decision script; returns [(path conditions (B terms), result)]"""
    results = []
    pending = [[]]
    while pending:
        script = pending.pop()
        tf = TraceFork(script)
        old = CTX.trace_fork
        CTX.trace_fork = tf
        try:
            r = fn()
        finally:
            CTX.trace_fork = old
        results.append((list(tf.conds), r))
        for i in range(tf.fresh_from, len(tf.script)):
            pending.append(tf.script[:i] + [False])
        if len(results) > max_paths:
            raise OutOfReach('more than %d trace paths' % max_paths)
    return results
