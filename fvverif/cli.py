"""vcheck <Cxx> [--tier quick|thorough] [--replay FILE] : decide one property on /repo's working tree.

exit 0  every obligation proved (bounded stand-ins passed); listed known findings reproduced
exit 1  VIOLATION property=<id> replay=<path>   (counter-model replayed on the real code, or a baseline obligation
        that no longer discharges: ... no-failing-input-found)
exit 2  UNDECIDED: only tool-limit outcomes and the bounded stand-in found nothing
exit 3  checker fault (canary proved, zero obligations, model/real disagreement, crash)"""
import argparse
import hashlib
import importlib
import json
import os
import sys
import time

ROOT = os.path.dirname(os.path.dirname(os.path.abspath(__file__)))
if ROOT not in sys.path:
    sys.path.insert(0, ROOT)

ASSUMPTIONS = {
    'A1': 'A1 machine arithmetic (binary64, Python ints) treated as exact real / integer arithmetic; float literals read as exact rationals',
    'A2': 'A2 numpy / scipy.sparse / copy.deepcopy replaced by the symbolic model fvverif/{arrays,npshim}.py (validated differentially against the installed libraries on every run, not proved)',
    'A3': 'A3 numpy/scipy kernels are deterministic functions of their inputs',
    'A4': 'A4 spsolve / external solver returns the exact solution of a non-singular system (uninterpreted solution vector)',
    'A5': 'A5 CPython executes the traced function bodies on model arrays as on real arrays (same bytecode, different array type)',
    'A6': 'A6 z3 4.15/5.1 (nlsat) and cvc5 are trusted; per-cell clauses -> whole-domain statements by the lemmas named in DESIGN.md',
    'A7': 'A7 (C02) conservative + flux-consistent + monotone two-point FV schemes converge (theory, not machine-checked)',
    'UF': 'sin, cos, exp, log, psi (arbitrary limiter) are uninterpreted; only the sign facts listed in oblig.mesh_hyps are used',
}


def load_known():
    p = os.path.join(ROOT, 'known_findings.json')
    if not os.path.exists(p):
        return []
    return json.load(open(p))


def load_baseline():
    p = os.path.join(ROOT, 'baseline', 'obligations.json')
    if not os.path.exists(p):
        return {}
    return json.load(open(p))


def match_known(known, prop, oid, labels):
    """open findings that cover a failing obligation: by obligation id (or regex over ids) and by the failing
    clause labels, all of which must be listed (exactly, or by prefix)"""
    import re
    out = []
    for k in known:
        if k.get('status', 'open') != 'open':
            continue
        if 'obligation_regex' in k:
            if not re.fullmatch(k['obligation_regex'], oid):
                continue
        elif oid != k['obligation']:
            continue
        if k.get('labels') and not (set(labels) <= set(k['labels'])):
            continue
        if k.get('label_prefixes') and not all(any(l.startswith(p) for p in k['label_prefixes']) for l in labels):
            continue
        out.append(k)
    return out


OUT = os.environ.get('VERIF_OUT') or ROOT     # scratch output root for runs against patched copies of the repo


def write_replay(prop, r, kind, extra=None):
    d = os.path.join(OUT, 'replays', prop)
    os.makedirs(d, exist_ok=True)
    import re
    safe = re.sub(r'[^A-Za-z0-9_.-]', '_', r['oid'].replace('/', '_').replace('[', '.').replace(']', '').replace('+', 'p'))   # shell-safe
    path = os.path.join(d, safe + '.json')
    doc = dict(property=prop, obligation=r['oid'], module=r['module'], cls=r['cls'], grid=r['grid'], kind=kind,
               cex=r.get('cex'), bounded=r.get('bounded'), solver=r.get('error'), results=[x for x in r['results'] if x[1] != 'proved'][:20],
               how_to_replay='bin/vcheck %s --replay %s' % (prop, os.path.relpath(path, OUT)))
    if extra:
        doc.update(extra)
    json.dump(doc, open(path, 'w'), indent=1, default=str)
    return os.path.relpath(path, OUT)


def do_replay(path):
    from fvverif import oblig
    doc = json.load(open(path))
    mod = importlib.import_module(doc['module'])
    ob = getattr(mod, doc['cls'])()
    grid = doc['grid']
    print('obligation', doc['obligation'], 'kind', doc['kind'])
    if doc.get('cex'):
        ok, detail = oblig.replay_cex(ob, grid, doc['cex'])
        print('counter-model: sizes', doc['cex']['sizes'], 'cell', doc['cex']['P'], 'values', json.dumps(doc['cex']['values'])[:600])
        print('real code violates the clause:' if ok else 'real code satisfies the clause at this input:', detail)
        return 1 if ok else 0
    b = doc.get('bounded') or {}
    if b.get('found'):
        bad, w = oblig.run_native(ob, grid, b['sizes'], b['seed'], unit_stress=b.get('unit_stress'))
        print('bounded stand-in input: sizes', b['sizes'], 'seed', b['seed'], '-> failing', bad[:5])
        return 1 if bad else 0
    print('no failing input recorded (no-failing-input-found); solver output:', doc.get('solver'))
    return 0


def clause_sha(modname):
    mod = importlib.import_module(modname)
    return hashlib.sha256(open(mod.__file__, 'rb').read()).hexdigest()[:16]


def main(argv=None):
    ap = argparse.ArgumentParser()
    ap.add_argument('prop')
    ap.add_argument('--tier', default=os.environ.get('VERIF_TIER', 'quick'))
    ap.add_argument('--replay')
    ap.add_argument('--only')
    ap.add_argument('--procs', type=int, default=0)
    ap.add_argument('--freeze-baseline', action='store_true')
    a = ap.parse_args(argv)
    prop = a.prop
    if a.replay:
        return do_replay(a.replay if os.path.isabs(a.replay) else os.path.join(OUT, a.replay))
    seed = int(os.environ.get('VERIF_SEED', '0') or 0)
    tier = a.tier if a.tier in ('quick', 'thorough') else 'quick'
    if tier == 'thorough' and 'VERIF_CROSSCHECK' not in os.environ:
        os.environ['VERIF_CROSSCHECK'] = '3'      # every unsat re-derived by cvc5 (3 s per leaf, 90 s per job), see prove._check_once
    t0 = time.time()
    pm = importlib.import_module('props.' + prop)
    from fvverif import runner
    jobs = pm.jobs(tier)
    if a.only:
        jobs = [j for j in jobs if a.only in j[1] or a.only in j[2]]
    opts = dict(seed=seed, conformance=(2 if tier == 'quick' else 5), bounded_seeds=(6 if tier == 'quick' else 40),
                timeout_ms=(20000 if tier == 'quick' else 60000))
    res = runner.run_jobs(jobs, opts, procs=a.procs or None)
    res.sort(key=lambda r: r['oid'])
    known = load_known()
    baseline = load_baseline()
    extra_checks = pm.extra(tier, seed) if hasattr(pm, 'extra') else []
    try:
        from fvverif.battery import np_extra_battery
        bd, bn = np_extra_battery()
    except Exception as e:      # noqa: BLE001
        bd, bn = [('battery', 'crashed: %s' % e)], 0

    viol, undecided, faults, kf_lines = [], [], [], []
    bounded_runs = []
    n_obl = n_dis = n_leaves = 0
    n_solver = 0
    backends = {}
    solver_s = 0.0
    canaries = 0
    conf_cases = 0
    samples = []
    functions = set()
    kf_reproduced = []
    canary_code_errors = []
    canary_out_of_reach = []
    n_confirmed = 0
    for r in res:
        for f in r.get('functions') or []:
            functions.add(f)
        for be, n in (r.get('backends') or {}).items():
            backends[be] = backends.get(be, 0) + n
        solver_s += sum(x[3] for x in r['results'])
        n_solver += len([x for x in r['results'] if x[1] == 'proved' and x[2] != 'trivial'])
        cf = r.get('conformance')
        if cf:
            conf_cases += cf['compared']
            if cf['problems']:
                faults.append('model/real disagreement in %s: %s' % (r['oid'], cf['problems'][:2]))
        if 'BACKEND-DISAGREEMENT' in (r.get('error') or ''):
            faults.append('back ends disagree on a leaf of %s: %s' % (r['oid'], r['error']))
        if r['status'] == 'crash':
            faults.append('crash in %s: %s' % (r['oid'], (r['error'] or '')[-400:]))
            continue
        if r.get('bounded_only'):
            bounded_runs.append(dict(what=r['oid'], scope=r.get('scope', ''), cases=(r.get('bounded') or {}).get('tried', 0),
                                     bounded=True, passed=r['status'] == 'bounded-pass'))
            if r['status'] == 'bounded-fail':
                ks = match_known(known, prop, r['oid'], sorted({x[0] for x in r['bounded']['failing']}))
                if ks:
                    for k in ks:
                        kf_lines.append('KNOWN-FINDING: property=%s %s -- %s' % (prop, r['oid'], k['what']))
                        kf_reproduced.append(k['key'])
                else:
                    path = write_replay(prop, r, 'bounded-standin-failing-input')
                    viol.append('VIOLATION property=%s replay=%s' % (prop, path))
                    n_confirmed += 1
            continue
        if r.get('canary'):
            if r['status'] == 'refuted' and (r.get('replay') or {}).get('confirmed'):
                canaries += 1
            elif r['status'] == 'out-of-reach' or (r['status'] == 'unknown' and 'tolerance-based test' in (r.get('error') or '')):
                canary_out_of_reach.append(r['oid'])
            elif r['status'] == 'error' and (r.get('bounded') or {}).get('found'):
                # the traced real code itself fails on the canary's scenario (natively too): not a vacuity problem of
                # the checker -- the ordinary obligations on the same code report it
                canary_code_errors.append(r['oid'])
            else:
                faults.append('canary %s not refuted+replayed (status %s)' % (r['oid'], r['status']))
            continue
        failing_labels = sorted({x[0] for x in r['results'] if x[1] != 'proved'})
        n_this = max(1, len(r['results']))
        n_leaves += r['nleaves']
        if r['status'] == 'proved':
            n_obl += n_this
            n_dis += n_this
            if len(samples) < 4 and r['results']:
                samples.append(dict(obligation=r['oid'], leaves=r['nleaves'], clause=r['results'][0][0], verdict='proved',
                                    backend=r['results'][0][2], negated_leaf_smt2=(r.get('sample_smt') or '')[:1200]))
            continue
        confirmed = (r['status'] == 'refuted' and (r.get('replay') or {}).get('confirmed')) or \
                    ((r.get('bounded') or {}).get('found'))
        if (r.get('bounded') or {}).get('found') and not failing_labels:
            failing_labels = sorted({x[0] for x in r['bounded']['failing']})
        ks = match_known(known, prop, r['oid'], failing_labels)
        if confirmed and ks:
            for k in ks:
                kf_lines.append('KNOWN-FINDING: property=%s %s -- %s' % (prop, r['oid'], k['what']))
                kf_reproduced.append(k['key'])
            n_ok = len([x for x in r['results'] if x[1] == 'proved'])
            n_obl += n_ok
            n_dis += n_ok
            continue
        n_obl += n_this
        n_dis += len([x for x in r['results'] if x[1] == 'proved'])
        if confirmed:
            kind = 'refuted+replayed' if r['status'] == 'refuted' and (r.get('replay') or {}).get('confirmed') else 'bounded-standin-failing-input'
            path = write_replay(prop, r, kind)
            viol.append('VIOLATION property=%s replay=%s' % (prop, path))
            n_confirmed += 1
            continue
        in_base = baseline.get(r['oid'], {}).get('status') == 'proved'
        # a tool limit (the model cannot trace the code as it is now) is not a failed proof: with the bounded stand-in
        # finding nothing it stays UNDECIDED (exit 2); a failed / unknown PROOF of a baseline obligation is a violation
        if in_base and r['status'] != 'out-of-reach':
            path = write_replay(prop, r, 'failed-no-input')
            viol.append('VIOLATION property=%s replay=%s obligation %s discharged on the baseline tree and does not now (%s) no-failing-input-found'
                        % (prop, path, r['oid'], r['status']))
        else:
            undecided.append('UNDECIDED property=%s obligation=%s status=%s %s' % (prop, r['oid'], r['status'], (r['error'] or '')[:200].replace('\n', ' ')))

    # stale known findings (listed, but no longer failing) are reported, never fatal
    for k in known:
        if k.get('status', 'open') == 'open' and prop in k.get('properties', []) and k['key'] not in kf_reproduced:
            if any(r['oid'] == k.get('obligation') for r in res):
                print('STALE-KNOWN-FINDING: property=%s %s no longer fails (%s)' % (prop, k['obligation'], k['key']))

    if bd:
        faults.append('numpy model battery (extra functions) disagrees with the installed numpy: %s' % bd[:3])
    for name, ok, detail in extra_checks:
        n_obl += 1
        if ok:
            n_dis += 1
        else:
            viol.append('VIOLATION property=%s replay=%s' % (prop, detail))

    for line in kf_lines:
        print(line)
    for line in undecided:
        print(line)
    for line in faults:
        print('CHECKER-FAULT: ' + line)
    for line in viol:
        print(line)
    wall = time.time() - t0
    if canaries == 0 and not a.only and not ((canary_code_errors or canary_out_of_reach) and (viol or undecided)):
        faults.append('no canary was refuted and replayed in this run (vacuity guard)')
        print('CHECKER-FAULT: no canary refuted+replayed')
    if n_obl + len(kf_lines) + len(bounded_runs) == 0:
        faults.append('zero obligations generated')
        print('CHECKER-FAULT: zero obligations')

    level = getattr(pm, 'LEVEL', 'proof')
    cov = dict(obligations=n_obl, discharged=n_dis, leaves=n_leaves,
               checker_cmd='bin/vcheck %s --tier %s' % (prop, tier),
               trusted_base=[ASSUMPTIONS[k] for k in getattr(pm, 'TRUSTED', ['A1', 'A2', 'A5', 'A6', 'UF'])],
               jobs=len(res), grids=sorted({r['grid'] for r in res}),
               functions_under_contract=sorted(functions | set(getattr(pm, 'FUNCTIONS', []))),
               backend_counts=backends, solver_seconds=round(solver_s, 2),
               canaries_refuted=canaries, conformance_arrays_compared=conf_cases, numpy_model_battery_cases=bn,
               known_findings_reproduced=sorted(set(kf_reproduced)),
               undecided=len(undecided), samples=samples or [dict(note='no proved obligation in this run')],
               explanation=getattr(pm, 'EXPLANATION', '') or (getattr(pm, 'LEVEL_TEXT', '') + ' -- ' + getattr(pm, 'LEVEL_NOTE', '')),
               not_machine_checked=getattr(pm, 'NOT_MACHINE_CHECKED', []),
               bounded_standins=getattr(pm, 'BOUNDED', []) + bounded_runs,
               exhaustive=False, evaluations=max(1, n_obl), distinct_nontrivial=n_solver,
               rule='one evaluation = one (clause, index region) leaf of one obligation; non-trivial = discharged by a solver call (z3 / z3+split / cvc5) rather than by syntactic identity of the two sides after tracing; leaves are distinct by construction (disjoint index regions x clauses x grids x configurations)')
    ev = dict(property_id=prop, tier=tier, seed=seed, level=level, coverage=cov,
              assumptions=[ASSUMPTIONS[k] for k in getattr(pm, 'TRUSTED', ['A1', 'A2', 'A5', 'A6', 'UF'])] + getattr(pm, 'EXTRA_ASSUMPTIONS', []),
              wall_s=round(wall, 2), violations=len(viol))
    os.makedirs(os.path.join(OUT, 'evidence'), exist_ok=True)
    json.dump(ev, open(os.path.join(OUT, 'evidence', prop + '.json'), 'w'), indent=1)
    if a.freeze_baseline:
        os.makedirs(os.path.join(ROOT, 'baseline'), exist_ok=True)
        for r in res:
            if not r.get('canary'):
                baseline[r['oid']] = dict(status=r['status'], leaves=r['nleaves'], clause_sha=clause_sha(r['module']),
                                          prop=sorted(set(baseline.get(r['oid'], {}).get('prop', [])) | {prop}))
        json.dump(baseline, open(os.path.join(ROOT, 'baseline', 'obligations.json'), 'w'), indent=0, sort_keys=True)
    slow = sorted(res, key=lambda r: -r.get('wall', 0))[:5]
    print('slowest jobs: ' + ', '.join('%s %.0fs' % (r['oid'], r.get('wall', 0)) for r in slow))
    print('%s tier=%s obligations=%d discharged=%d leaves=%d jobs=%d known-findings=%d undecided=%d wall=%.1fs'
          % (prop, tier, n_obl, n_dis, n_leaves, len(res), len(kf_lines), len(undecided), wall))
    if n_confirmed:
        return 1            # violations with a failing input replayed on the real code stand, whatever else happened
    if faults:
        return 3
    if viol:
        return 1
    if undecided:
        return 2
    return 0


if __name__ == '__main__':
    sys.exit(main())
