"""Symbolic reals / booleans: a hash-consed expression DAG with numpy-scalar-like operator semantics.

R  - real-valued term:   const | var(name, idx) | int(IExpr) | + * / neg pow | ite | uninterpreted fn
B  - boolean term:       cmp(op, a, b) | and | or | not | const | int-condition (ICond)

Python float literals are read as exact rationals (repr of the float -> Fraction of the decimal text), cf.
DESIGN A1.  x*0 is simplified to 0 (real semantics, not IEEE)."""
from fractions import Fraction
import math
from .ints import IExpr, ICond, CTX, NeedSplit, OutOfReach, is_int_like, I

_TABLE = {}


def _keyof(x):
    if isinstance(x, (R, B)):
        return ('#', id(x))
    if isinstance(x, IExpr):
        return ('I', x.key())
    if isinstance(x, tuple):
        return tuple(_keyof(y) for y in x)
    return x


def _mk(cls, node):
    """hash-consing keyed by child identity (R/B define == as a term constructor, so they must never be
    compared by value inside dict lookups)"""
    k = (cls.__name__,) + _keyof(node)
    r = _TABLE.get(k)
    if r is None:
        r = object.__new__(cls)
        r.node = node
        r._h = hash(k)
        _TABLE[k] = r
    return r


def frac_of_float(x):
    """decimal reading of a float literal: 0.1 -> 1/10, 2e-16 -> 1/5e15, 1/3 (a computed float) -> nearest decimal repr"""
    if isinstance(x, Fraction):
        return x
    if isinstance(x, bool):
        return Fraction(int(x))
    if isinstance(x, int):
        return Fraction(x)
    if isinstance(x, float):
        if math.isnan(x) or math.isinf(x):
            raise OutOfReach('non-finite float constant %r' % x)
        # recognise simple rationals p/q with small q that repr() cannot express exactly (1/3, 4/3, 2/3 ...)
        for q in (3, 6, 7, 9, 12):
            p = round(x * q)
            if p / q == x and abs(p) < 10**6:
                return Fraction(p, q)
        return Fraction(repr(x))
    try:
        import numpy as _np
        if isinstance(x, _np.floating):
            return frac_of_float(float(x))
        if isinstance(x, _np.integer):
            return Fraction(int(x))
        if isinstance(x, _np.bool_):
            return Fraction(int(x))
    except ImportError:
        pass
    raise TypeError('not a real constant: %r' % (x,))


def is_number(x):
    if isinstance(x, (int, float, Fraction, bool)):
        return True
    try:
        import numpy as _np
        return isinstance(x, (_np.floating, _np.integer, _np.bool_))
    except ImportError:
        return False


class R:
    __slots__ = ('node', '_h', '__weakref__')

    # ---------------- constructors
    @staticmethod
    def const(c):
        return _mk(R, ('c', frac_of_float(c)))

    @staticmethod
    def var(name, idx=()):
        return _mk(R, ('v', name, tuple(idx)))

    @staticmethod
    def of(x):
        if isinstance(x, R):
            return x
        if isinstance(x, B):
            return R.ite(x, R.const(1), R.const(0))
        if isinstance(x, ICond):
            return R.ite(B.icond(x), R.const(1), R.const(0))
        if isinstance(x, IExpr):
            if x.is_const():
                return R.const(x.const_value())
            return _mk(R, ('i', x))
        if is_number(x):
            return R.const(x)
        raise TypeError('not a real term: %r' % (x,))

    @staticmethod
    def ite(c, a, b):
        c = B.of(c)
        a = R.of(a)
        b = R.of(b)
        if c.node == ('b', True):
            return a
        if c.node == ('b', False):
            return b
        if a is b:
            return a
        return _mk(R, ('ite', c, a, b))

    @staticmethod
    def fn(name, *args):
        args = tuple(R.of(a) for a in args)
        if all(a.is_const() for a in args):
            v = _const_fn(name, [a.cval() for a in args])
            if v is not None:
                return R.const(v)
        return _mk(R, ('f', name) + args)

    # ---------------- inspection
    def is_const(self):
        return self.node[0] == 'c'

    def cval(self):
        return self.node[1]

    def __hash__(self):
        return self._h

    def same(self, o):
        return self is R.of(o)

    # ---------------- arithmetic
    def __add__(self, o):
        o = _coerce(o)
        if o is NotImplemented:
            return NotImplemented
        if self.is_const() and o.is_const():
            return R.const(self.cval() + o.cval())
        if self.is_const() and self.cval() == 0:
            return o
        if o.is_const() and o.cval() == 0:
            return self
        return _mk(R, ('+', self, o))

    def __radd__(self, o):
        o = _coerce(o)
        if o is NotImplemented:
            return NotImplemented
        return o + self

    def __neg__(self):
        if self.is_const():
            return R.const(-self.cval())
        if self.node[0] == 'neg':
            return self.node[1]
        return _mk(R, ('neg', self))

    def __pos__(self):
        return self

    def __sub__(self, o):
        o = _coerce(o)
        if o is NotImplemented:
            return NotImplemented
        return self + (-o)

    def __rsub__(self, o):
        o = _coerce(o)
        if o is NotImplemented:
            return NotImplemented
        return o + (-self)

    def __mul__(self, o):
        if isinstance(o, B):
            return R.ite(o, self, R.const(0))
        if isinstance(o, ICond):
            return R.ite(B.icond(o), self, R.const(0))
        o = _coerce(o)
        if o is NotImplemented:
            return NotImplemented
        if self.is_const() and o.is_const():
            return R.const(self.cval() * o.cval())
        for a, b in ((self, o), (o, self)):
            if a.is_const():
                if a.cval() == 0:
                    return R.const(0)
                if a.cval() == 1:
                    return b
                if a.cval() == -1:
                    return -b
        return _mk(R, ('*', self, o))

    def __rmul__(self, o):
        if isinstance(o, (B, ICond)):
            return self.__mul__(o)
        o = _coerce(o)
        if o is NotImplemented:
            return NotImplemented
        return o * self

    def __truediv__(self, o):
        o = _coerce(o)
        if o is NotImplemented:
            return NotImplemented
        if o.is_const():
            if o.cval() == 0:
                CTX.safety.append(('div_by_const_zero', self, o))
                return _mk(R, ('/', self, o))
            if self.is_const():
                return R.const(self.cval() / o.cval())
            if o.cval() == 1:
                return self
            return self * R.const(1 / o.cval())
        if self.is_const() and self.cval() == 0:
            # 0/x == 0 whenever x != 0; the division stays recorded for the safety pass
            return _mk(R, ('/', self, o))
        return _mk(R, ('/', self, o))

    def __rtruediv__(self, o):
        o = _coerce(o)
        if o is NotImplemented:
            return NotImplemented
        return o / self

    def __pow__(self, o):
        if isinstance(o, IExpr) and o.is_const():
            o = o.const_value()
        if isinstance(o, R) and o.is_const() and o.cval().denominator == 1:
            o = int(o.cval())
        if is_number(o) and not isinstance(o, int):
            f = frac_of_float(o)
            if f.denominator == 1:
                o = int(f)
        if isinstance(o, int) and not isinstance(o, bool):
            if o == 0:
                return R.const(1)
            if o == 1:
                return self
            if self.is_const():
                if o < 0 and self.cval() == 0:
                    raise OutOfReach('0 ** negative')
                return R.const(self.cval() ** o)
            if o < 0:
                return R.const(1) / (self ** (-o))
            return _mk(R, ('pow', self, o))
        o2 = _coerce(o)
        if o2 is NotImplemented:
            return NotImplemented
        return R.fn('powr', self, o2)

    def __rpow__(self, o):
        o2 = _coerce(o)
        if o2 is NotImplemented:
            return NotImplemented
        return o2 ** self

    def __abs__(self):
        if self.is_const():
            return R.const(abs(self.cval()))
        return R.ite(self >= 0, self, -self)

    # ---------------- comparisons
    def _cmp(self, op, o):
        o = _coerce(o)
        if o is NotImplemented:
            return NotImplemented
        return B.cmp(op, self, o)

    def __lt__(self, o):
        return self._cmp('<', o)

    def __le__(self, o):
        return self._cmp('<=', o)

    def __gt__(self, o):
        return self._cmp('>', o)

    def __ge__(self, o):
        return self._cmp('>=', o)

    def __eq__(self, o):
        return self._cmp('==', o)

    def __ne__(self, o):
        return self._cmp('!=', o)

    def __bool__(self):
        return bool(self != 0)

    def __float__(self):
        if self.is_const():
            return float(self.cval())
        raise OutOfReach('concretisation of a symbolic real (__float__)')

    def __int__(self):
        if self.is_const() and self.cval().denominator == 1:
            return int(self.cval())
        raise OutOfReach('concretisation of a symbolic real (__int__)')

    # numpy-scalar look-alikes used by the repo
    def item(self):
        return self

    @property
    def ndim(self):
        return 0

    @property
    def shape(self):
        return ()

    @property
    def size(self):
        return 1

    def __repr__(self):
        return show(self)


def _coerce(o):
    if isinstance(o, R):
        return o
    if isinstance(o, (B, ICond, IExpr)) or is_number(o):
        return R.of(o)
    return NotImplemented


def _const_fn(name, vals):
    if name == 'sin' and vals[0] == 0:
        return Fraction(0)
    if name == 'cos' and vals[0] == 0:
        return Fraction(1)
    if name == 'exp' and vals[0] == 0:
        return Fraction(1)
    if name == 'log' and vals[0] == 1:
        return Fraction(0)
    if name == 'sqrt' and vals[0] >= 0:
        from math import isqrt
        n, d = vals[0].numerator, vals[0].denominator
        if isqrt(n) ** 2 == n and isqrt(d) ** 2 == d:
            return Fraction(isqrt(n), isqrt(d))
    return None


class B:
    __slots__ = ('node', '_h', '__weakref__')

    @staticmethod
    def const(v):
        return _mk(B, ('b', bool(v)))

    @staticmethod
    def icond(c):
        if c.is_true():
            return B.const(True)
        if c.is_false():
            return B.const(False)
        return _mk(B, ('ic', _ICWrap(c)))

    @staticmethod
    def of(x):
        if isinstance(x, B):
            return x
        if isinstance(x, (bool,)):
            return B.const(x)
        if isinstance(x, ICond):
            return B.icond(x)
        if isinstance(x, R):
            return x != 0
        if is_number(x):
            return B.const(x != 0)
        if isinstance(x, IExpr):
            return B.icond(x != 0)
        raise TypeError('not a boolean term: %r' % (x,))

    @staticmethod
    def cmp(op, a, b):
        if a.is_const() and b.is_const():
            x, y = a.cval(), b.cval()
            return B.const({'<': x < y, '<=': x <= y, '>': x > y, '>=': x >= y, '==': x == y, '!=': x != y}[op])
        if a is b:
            return B.const(op in ('<=', '>=', '=='))
        # integer-only comparisons stay in LIA
        if a.node[0] in ('i', 'c') and b.node[0] in ('i', 'c'):
            ia = a.node[1] if a.node[0] == 'i' else (IExpr.const(int(a.cval())) if a.cval().denominator == 1 else None)
            ib = b.node[1] if b.node[0] == 'i' else (IExpr.const(int(b.cval())) if b.cval().denominator == 1 else None)
            if ia is not None and ib is not None:
                c = {'<': ia < ib, '<=': ia <= ib, '>': ia > ib, '>=': ia >= ib, '==': ia == ib, '!=': ia != ib}[op]
                return B.icond(c)
        return _mk(B, ('cmp', op, a, b))

    def __and__(self, o):
        o = B.of(o)
        if self.node == ('b', False) or o.node == ('b', False):
            return B.const(False)
        if self.node == ('b', True):
            return o
        if o.node == ('b', True):
            return self
        if self is o:
            return self
        return _mk(B, ('and', self, o))
    __rand__ = __and__

    def __or__(self, o):
        o = B.of(o)
        if self.node == ('b', True) or o.node == ('b', True):
            return B.const(True)
        if self.node == ('b', False):
            return o
        if o.node == ('b', False):
            return self
        if self is o:
            return self
        return _mk(B, ('or', self, o))
    __ror__ = __or__

    def __invert__(self):
        n = self.node
        if n[0] == 'b':
            return B.const(not n[1])
        if n[0] == 'not':
            return n[1]
        if n[0] == 'cmp':
            inv = {'<': '>=', '<=': '>', '>': '<=', '>=': '<', '==': '!=', '!=': '=='}[n[1]]
            return B.cmp(inv, n[2], n[3])
        if n[0] == 'ic':
            return B.icond(n[1].c.neg())
        return _mk(B, ('not', self))

    def implies(self, o):
        return (~self) | B.of(o)

    def __hash__(self):
        return self._h

    # arithmetic on booleans (numpy: True == 1)
    def __mul__(self, o):
        if isinstance(o, B):
            return R.of(self & o)
        o2 = _coerce(o)
        if o2 is NotImplemented:
            return NotImplemented
        return R.ite(self, o2, R.const(0))
    __rmul__ = __mul__

    def __add__(self, o):
        return R.of(self) + o
    __radd__ = __add__

    def __sub__(self, o):
        return R.of(self) - o

    def __rsub__(self, o):
        return o - R.of(self)

    def __neg__(self):
        return -R.of(self)

    def __truediv__(self, o):
        return R.of(self) / o

    def __rtruediv__(self, o):
        return o / R.of(self)

    def __eq__(self, o):
        if isinstance(o, (B, bool)):
            o = B.of(o)
            return (self & o) | (~self & ~o)
        return R.of(self) == o

    def __ne__(self, o):
        return ~(self == o)

    def __gt__(self, o):
        return R.of(self) > o

    def __lt__(self, o):
        return R.of(self) < o

    def __ge__(self, o):
        return R.of(self) >= o

    def __le__(self, o):
        return R.of(self) <= o

    def __bool__(self):
        n = self.node
        if n[0] == 'b':
            return n[1]
        if n[0] == 'ic':
            return CTX.decide(n[1].c)
        # a data-dependent branch in traced code: fork the trace
        tf = CTX.trace_fork
        if tf is not None:
            return tf.decide_real(self)
        raise OutOfReach('bool() of a symbolic real condition outside a forkable trace: %s' % show(self))

    def item(self):
        return self

    @property
    def ndim(self):
        return 0

    @property
    def shape(self):
        return ()

    @property
    def size(self):
        return 1

    def __repr__(self):
        return show(self)


class _ICWrap:
    """hashable wrapper of an ICond (ICond defines no __hash__/__eq__ of its own)"""
    __slots__ = ('c', 'k')

    def __init__(self, c):
        self.c = c
        self.k = c.key()

    def __hash__(self):
        return hash(self.k)

    def __eq__(self, o):
        return isinstance(o, _ICWrap) and self.k == o.k

    def __repr__(self):
        return repr(self.c)


def is_scalar(x):
    return isinstance(x, (R, B, IExpr, ICond)) or is_number(x)


def rmin(a, b):
    a = R.of(a)
    b = R.of(b)
    if a.is_const() and b.is_const():
        return R.const(min(a.cval(), b.cval()))
    return R.ite(a <= b, a, b)


def rmax(a, b):
    a = R.of(a)
    b = R.of(b)
    if a.is_const() and b.is_const():
        return R.const(max(a.cval(), b.cval()))
    return R.ite(a >= b, a, b)


def rsign(a):
    a = R.of(a)
    return R.ite(a > 0, R.const(1), R.ite(a < 0, R.const(-1), R.const(0)))


# ------------------------------------------------------------------------------------------------
#  generic traversal utilities

def show(e, depth=6):
    n = e.node
    t = n[0]
    if depth <= 0:
        return '...'
    d = depth - 1
    if t == 'c':
        return str(n[1])
    if t == 'v':
        return n[1] + ('[' + ','.join(map(str, n[2])) + ']' if n[2] else '')
    if t == 'i':
        return 'int(%s)' % (n[1],)
    if t in ('+', '*', '/'):
        return '(%s %s %s)' % (show(n[1], d), t, show(n[2], d))
    if t == 'neg':
        return '-%s' % show(n[1], d)
    if t == 'pow':
        return '%s^%d' % (show(n[1], d), n[2])
    if t == 'ite':
        return 'ite(%s, %s, %s)' % (show(n[1], d), show(n[2], d), show(n[3], d))
    if t == 'f':
        return '%s(%s)' % (n[1], ', '.join(show(a, d) for a in n[2:]))
    if t == 'b':
        return str(n[1])
    if t == 'ic':
        return '{%s}' % (n[1],)
    if t == 'cmp':
        return '(%s %s %s)' % (show(n[2], d), n[1], show(n[3], d))
    if t in ('and', 'or'):
        return '(%s %s %s)' % (show(n[1], d), t, show(n[2], d))
    if t == 'not':
        return 'not %s' % show(n[1], d)
    return repr(n)


def children(e):
    n = e.node
    t = n[0]
    if t in ('c', 'v', 'i', 'b', 'ic'):
        return ()
    if t in ('+', '*', '/', 'and', 'or'):
        return (n[1], n[2])
    if t in ('neg', 'not'):
        return (n[1],)
    if t == 'pow':
        return (n[1],)
    if t == 'ite':
        return (n[1], n[2], n[3])
    if t == 'f':
        return n[2:]
    if t == 'cmp':
        return (n[2], n[3])
    raise AssertionError(n)


def walk(e, seen=None):
    """all distinct sub-terms (post-order)"""
    if seen is None:
        seen = set()
    out = []
    stack = [(e, False)]
    while stack:
        x, done = stack.pop()
        if done:
            out.append(x)
            continue
        if id(x) in seen:
            continue
        seen.add(id(x))
        stack.append((x, True))
        for c in children(x):
            if id(c) not in seen:
                stack.append((c, False))
    return out


def variables(e):
    """list of distinct ('v', name, idx) nodes"""
    return [x for x in walk(e) if x.node[0] == 'v']


class IdDict(dict):
    """dict keyed by object identity (terms overload ==)"""
    def __getitem__(self, x):
        return dict.__getitem__(self, id(x))

    def __setitem__(self, x, v):
        dict.__setitem__(self, id(x), v)

    def __contains__(self, x):
        return dict.__contains__(self, id(x))

    def get(self, x, d=None):
        return dict.get(self, id(x), d)


def rebuild(e, leaf_fn, memo=None):
    """Rebuild e bottom-up, replacing leaves by leaf_fn(leaf) (returning None keeps the leaf)."""
    if memo is None:
        memo = IdDict()
    for x in walk(e):
        n = x.node
        t = n[0]
        if t in ('c', 'v', 'i', 'b', 'ic'):
            r = leaf_fn(x)
            memo[x] = x if r is None else r
        elif t == '+':
            memo[x] = memo[n[1]] + memo[n[2]]
        elif t == '*':
            memo[x] = memo[n[1]] * memo[n[2]]
        elif t == '/':
            memo[x] = memo[n[1]] / memo[n[2]]
        elif t == 'neg':
            memo[x] = -memo[n[1]]
        elif t == 'pow':
            memo[x] = memo[n[1]] ** n[2]
        elif t == 'ite':
            memo[x] = R.ite(memo[n[1]], memo[n[2]], memo[n[3]])
        elif t == 'f':
            memo[x] = R.fn(n[1], *[memo[a] for a in n[2:]])
        elif t == 'cmp':
            memo[x] = B.cmp(n[1], memo[n[2]], memo[n[3]])
        elif t == 'and':
            memo[x] = memo[n[1]] & memo[n[2]]
        elif t == 'or':
            memo[x] = memo[n[1]] | memo[n[2]]
        elif t == 'not':
            memo[x] = ~memo[n[1]]
        else:
            raise AssertionError(n)
    return memo[e]


def subst_vars(e, fn):
    """replace variable leaves: fn(name, idx) -> R or None"""
    def leaf(x):
        if x.node[0] == 'v':
            return fn(x.node[1], x.node[2])
        return None
    return rebuild(e, leaf)


def subst_ints(e, mapping):
    """substitute integer atoms (in variable indices, int leaves and int conditions)"""
    def leaf(x):
        n = x.node
        if n[0] == 'v':
            return R.var(n[1], tuple(I(i).subst(mapping) for i in n[2]))
        if n[0] == 'i':
            return R.of(n[1].subst(mapping))
        if n[0] == 'ic':
            return B.icond(n[1].c.subst(mapping))
        return None
    return rebuild(e, leaf)


def resolve_ints(e):
    """decide every embedded integer condition under the current assumptions (may raise NeedSplit)"""
    has = any(x.node[0] == 'ic' for x in walk(e))
    if not has:
        return e

    def leaf(x):
        if x.node[0] == 'ic':
            return B.const(CTX.decide(x.node[1].c))
        return None
    return rebuild(e, leaf)


def evaluate(e, env, fns=None, exact=True):
    """numeric evaluation.  env(name, idx_tuple_of_ints) -> number; integer atoms via env.ints[atom].
    exact=True uses Fractions (uninterpreted functions then need `fns` returning Fractions or raise)."""
    import math as _m
    memo = IdDict()
    for x in walk(e):
        n = x.node
        t = n[0]
        if t == 'c':
            v = n[1] if exact else float(n[1])
        elif t == 'v':
            idx = tuple(_eval_int(i, env) for i in n[2])
            v = env.var(n[1], idx)
            v = frac_of_float(v) if exact and not isinstance(v, Fraction) else v
        elif t == 'i':
            v = _eval_int(n[1], env)
            v = Fraction(v) if exact else float(v)
        elif t == '+':
            a, b = memo[n[1]], memo[n[2]]
            v = _NAN if (a is _NAN or b is _NAN) else a + b
        elif t == '*':
            a, b = memo[n[1]], memo[n[2]]
            v = _NAN if (a is _NAN or b is _NAN) else a * b
        elif t == '/':
            d = memo[n[2]]
            if d is _NAN or d == 0:
                v = _NAN
            else:
                v = memo[n[1]] / d if memo[n[1]] is not _NAN else _NAN
        elif t == 'neg':
            v = -memo[n[1]] if memo[n[1]] is not _NAN else _NAN
        elif t == 'pow':
            v = memo[n[1]] ** n[2] if memo[n[1]] is not _NAN else _NAN
        elif t == 'ite':
            c = memo[n[1]]
            v = memo[n[2]] if c else memo[n[3]]
        elif t == 'f':
            args = [memo[a] for a in n[2:]]
            if any(a is _NAN for a in args):
                v = _NAN
            else:
                f = {'sin': _m.sin, 'cos': _m.cos, 'exp': _m.exp, 'log': _m.log, 'sqrt': _m.sqrt,
                     'powr': lambda a, b: a ** b}[n[1]]
                try:
                    v = f(*[float(a) for a in args])
                    if exact:
                        v = Fraction(v)
                except (ValueError, ZeroDivisionError, OverflowError):
                    v = _NAN
        elif t == 'b':
            v = n[1]
        elif t == 'ic':
            v = _eval_icond(n[1].c, env)
        elif t == 'cmp':
            a, b = memo[n[2]], memo[n[3]]
            if a is _NAN or b is _NAN:
                v = (n[1] == '!=')
            else:
                v = {'<': a < b, '<=': a <= b, '>': a > b, '>=': a >= b, '==': a == b, '!=': a != b}[n[1]]
        elif t == 'and':
            v = memo[n[1]] and memo[n[2]]
        elif t == 'or':
            v = memo[n[1]] or memo[n[2]]
        elif t == 'not':
            v = not memo[n[1]]
        else:
            raise AssertionError(n)
        memo[x] = v
    return memo[e]


class _Nan:
    def __repr__(self):
        return 'NaN'

    def __bool__(self):
        return True


_NAN = _Nan()
NAN = _NAN


def _eval_int(p, env):
    p = I(p)
    s = 0
    for m, c in p.terms.items():
        t = c
        for a, k in m:
            t *= env.int_atom(a) ** k
        s += t
    return s


def _eval_icond(c, env):
    if c.op == 'true':
        return True
    if c.op == 'false':
        return False
    if c.op == 'and':
        return all(_eval_icond(a, env) for a in c.args)
    if c.op == 'or':
        return any(_eval_icond(a, env) for a in c.args)
    v = _eval_int(c.poly, env)
    return v >= 0 if c.op == 'ge' else v == 0 if c.op == 'eq' else v != 0


def denominators(e):
    """distinct denominators of every division in e, each with the conjunction of ite-guards under which the
    division is actually selected (list of (den, guard B))"""
    out = []
    seen = set()
    stack = [(e, B.const(True))]
    visited = set()
    while stack:
        x, g = stack.pop()
        key = (id(x), id(g))
        if key in visited:
            continue
        visited.add(key)
        n = x.node
        t = n[0]
        if t == '/':
            k = (id(n[2]), id(g))
            if k not in seen:
                seen.add(k)
                out.append((n[2], g))
            stack.append((n[1], g))
            stack.append((n[2], g))
        elif t == 'ite':
            stack.append((n[1], g))
            stack.append((n[2], g & n[1]))
            stack.append((n[3], g & ~n[1]))
        else:
            for c in children(x):
                stack.append((c, g))
    return out
