"""Job runner: (obligation class, grid) jobs in a process pool; each job = symbolic discharge + (on anything but
'proved') replay / bounded search on the real code."""
import importlib
import json
import multiprocessing as mp
import os
import sys
import time
import traceback

ROOT = os.path.dirname(os.path.dirname(os.path.abspath(__file__)))
if ROOT not in sys.path:
    sys.path.insert(0, ROOT)


class JobTimeout(Exception):
    pass


def _alarm(signum, frame):
    raise JobTimeout()


def _job(args):
    modname, clsname, grid, opts = args
    import signal
    signal.signal(signal.SIGALRM, _alarm)
    signal.alarm(int(opts.get('job_timeout', 900)))
    try:
        return _job_inner(args)
    except JobTimeout:
        return dict(oid='%s.%s[%s]' % (modname, clsname, grid), status='timeout', error='job exceeded %ss' % opts.get('job_timeout', 900),
                    module=modname, cls=clsname, grid=grid, results=[], nleaves=0, cex=None, replay=None, bounded=None,
                    canary=False, seconds=0, backends={}, functions=[])
    finally:
        signal.alarm(0)


def _job_inner(args):
    modname, clsname, grid, opts = args
    try:
        from fvverif import oblig
        mod = importlib.import_module(modname)
        ob = getattr(mod, clsname)()
        t0 = time.time()
        if ob.bounded_only:
            seeds = range(opts.get('seed', 0), opts.get('seed', 0) + opts.get('bounded_seeds', 6))
            b = oblig.bounded_search(ob, grid, seeds)
            return dict(oid=ob.oid(grid), status='bounded-fail' if b.get('found') else 'bounded-pass', error=None, module=modname,
                        cls=clsname, grid=grid, results=[], nleaves=0, cex=None, replay=None, bounded=b, canary=False,
                        seconds=round(time.time() - t0, 2), wall=round(time.time() - t0, 2), backends={}, functions=[],
                        bounded_only=True, scope=getattr(ob, 'scope', ''))
        r = oblig.run_symbolic(ob, grid, timeout_ms=opts.get('timeout_ms', 20000))
        r['module'] = modname
        r['cls'] = clsname
        r['grid'] = grid
        r['functions'] = sorted(set(getattr(ob, 'functions', ()) or []) | set(r.get('traced_functions') or []))
        r['canary'] = bool(ob.canary)
        r['replay'] = None
        r['bounded'] = None
        if r['status'] == 'refuted' and r['cex'] is not None:
            try:
                ok, detail = oblig.replay_cex(ob, grid, r['cex'])
                r['replay'] = dict(confirmed=bool(ok), detail=str(detail)[:500])
            except Exception as e:   # noqa: BLE001
                r['replay'] = dict(confirmed=False, detail='replay crashed: %s' % e)
        if r['status'] in ('out-of-reach', 'unknown', 'error') or (r['status'] == 'refuted' and not (r['replay'] or {}).get('confirmed')):
            seeds = range(opts.get('seed', 0), opts.get('seed', 0) + opts.get('bounded_seeds', 6))
            try:
                r['bounded'] = oblig.bounded_search(ob, grid, seeds)
            except Exception as e:   # noqa: BLE001
                r['bounded'] = dict(found=False, tried=0, error='%s: %s' % (type(e).__name__, e))
        if opts.get('conformance') and r['status'] not in ('out-of-reach', 'error'):
            import random
            rng = random.Random(opts.get('seed', 0) + 17)
            nd = oblig.GRIDS[grid]['nd']
            probs = []
            n = 0
            for s in range(opts['conformance']):
                sizes = [rng.choice([1, 2, 3]) for _ in range(nd)]
                try:
                    k, p = oblig.conformance(ob, grid, sizes, seed=opts.get('seed', 0) * 101 + s)
                except oblig.OutOfReach as e:
                    k, p = 0, []
                except oblig.NativeFailure as e:
                    # real code raises where the symbolic trace went through: report as a failing input of the clause
                    k, p = 0, []
                    if not (r.get('bounded') or {}).get('found'):
                        r['bounded'] = dict(found=True, seed=e.seed, sizes=e.sizes, failing=[('exception', str(e))], tried=1)
                    if r['status'] == 'proved':
                        r['status'] = 'error'
                        r['error'] = 'the real code raises on valid input (%s) although every clause was discharged symbolically' % e
                n += k
                probs += p
            r['conformance'] = dict(compared=n, problems=probs[:5])
        r['results'] = r['results'][:400]
        r['wall'] = round(time.time() - t0, 3)
        return r
    except Exception as e:   # noqa: BLE001
        return dict(oid='%s.%s[%s]' % (modname, clsname, grid), status='crash', error=traceback.format_exc(),
                    module=modname, cls=clsname, grid=grid, results=[], nleaves=0, cex=None, replay=None, bounded=None,
                    canary=False, seconds=0, backends={}, functions=[])


def run_jobs(jobs, opts=None, procs=None):
    opts = opts or {}
    procs = procs or min(16, os.cpu_count() or 4)
    args = [(m, c, g, opts) for (m, c, g) in jobs]
    if procs == 1 or len(args) == 1:
        return [_job(a) for a in args]
    ctx = mp.get_context('fork')
    with ctx.Pool(procs, maxtasksperchild=8) as pool:
        return list(pool.imap_unordered(_job, args, chunksize=1))


def obligations_of(modnames, prop=None):
    """[(module, class name, grid)] for every Ob subclass with a name, filtered by property id"""
    from fvverif.oblig import Ob
    jobs = []
    for mn in modnames:
        mod = importlib.import_module(mn)
        for k, v in vars(mod).items():
            if isinstance(v, type) and issubclass(v, Ob) and v is not Ob and getattr(v, 'name', '?') != '?' \
                    and v.__module__ == mod.__name__:
                if prop is None or prop in v.props:
                    for g in v.grids:
                        jobs.append((mn, k, g))
    return jobs


if __name__ == '__main__':
    mods = sys.argv[1].split(',')
    prop = sys.argv[2] if len(sys.argv) > 2 and sys.argv[2] != '-' else None
    only = sys.argv[3] if len(sys.argv) > 3 else None
    jobs = obligations_of(mods, prop)
    if only:
        jobs = [j for j in jobs if only in j[1] or only in j[2]]
    t0 = time.time()
    res = run_jobs(jobs, dict(conformance=int(os.environ.get('CONF', '0'))))
    res.sort(key=lambda r: r['oid'])
    for r in res:
        extra = ''
        if r['status'] == 'refuted':
            extra = ' replay=%s %s' % ((r['replay'] or {}).get('confirmed'), json.dumps(r['cex'])[:300] if r['cex'] else '')
        if r.get('bounded'):
            extra += ' bounded=%s' % json.dumps(r['bounded'])[:200]
        if r.get('conformance') and r['conformance']['problems']:
            extra += ' CONFORMANCE %s' % r['conformance']['problems'][:2]
        print('%-70s %-12s leaves=%-4d %6.1fs %s %s%s' % (r['oid'], r['status'], r['nleaves'], r['seconds'], r['backends'],
                                                        (r['error'] or '')[:160].replace('\n', ' | '), extra))
    print('total', round(time.time() - t0, 1), 's', len(res), 'jobs')
