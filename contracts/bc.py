"""C03 (and parts of C04/C07/C17): ghost-cell values (cellValuesWithBoundaries*) and boundary-equation rows
(boundaryConditionsTerm*) against the Robin relation  a*dphi/dn + b*phi = c  on every boundary face, for symbolic
face-wise varying a, b, c, every side, and every pattern of periodic flags."""
import itertools
from .common import *
from fvverif import trace as T
from fvverif.arrays import SymNDArray

SIDES = [('left', 'right'), ('bottom', 'top'), ('back', 'front')]


def side_shape(w, a):
    """shape of the coefficient arrays of the two faces normal to axis a"""
    N = w.N
    if w.nd == 1:
        return (1,)
    return tuple(N[b] for b in range(w.nd) if b != a)


def make_bc(w, pattern, prefix='', scale=None):
    """real BoundaryConditions object with symbolic / random coefficient arrays.
    pattern: string over 'n' (not periodic), 'l' (periodic declared on the lower face), 'r' (on the upper face)"""
    BC = bnd.BoundaryConditions(w.mesh)
    coefs = {}
    for a in range(w.nd):
        for s, side in enumerate(SIDES[a]):
            face = getattr(BC, side)
            for cn in 'abc':
                name = '%s%s%s' % (prefix, side[0] + side[-1], cn)   # lt/rt/bm/tp/bk/ft + a|b|c
                arr = w.array(name, side_shape(w, a))
                if scale is not None:
                    arr = arr * scale
                setattr(face, cn, arr)
                coefs[(a, s, cn)] = arr
        if pattern[a] == 'l':
            getattr(BC, SIDES[a][0]).periodic = True
        elif pattern[a] == 'r':
            getattr(BC, SIDES[a][1]).periodic = True
    return BC, coefs


def metric_factor(w, a, P):
    """scale factor of the coordinate direction a at (the centre of) cell P: 1, r_P, or r_P*sin(theta_P)"""
    g = w.grid
    m = w.mesh
    one = 1
    if a == 1 and g in ('PolarGrid2D', 'CylindricalGrid3D', 'SphericalGrid3D'):
        return w.at(m.cellcenters._x, (P[0] - 1,))
    if a == 2 and g == 'SphericalGrid3D':
        return w.at(m.cellcenters._x, (P[0] - 1,)) * w.fn('sin', w.at(m.cellcenters._y, (P[1] - 1,)))
    return one


def coef_at(w, coefs, a, s, cn, P):
    """coefficient cn of the face on side s of axis a, at the face cell adjacent to (interior) cell P"""
    arr = coefs[(a, s, cn)]
    if w.nd == 1:
        return w.at(arr, (0,))
    idx = tuple(P[b] - 1 for b in range(w.nd) if b != a)
    extra = len(arr.shape) - len(idx)
    if extra > 0:          # e.g. the default 2-D left.c has shape (1, Ny)
        idx = (0,) * extra + idx
    return w.at(arr, idx)


def robin_residual(w, coefs, a, s, P, phi_lo, phi_hi):
    """a*(phi_hi-phi_lo)/(h*g) + b*(phi_hi+phi_lo)/2 - c on the boundary face (side s of axis a) next to cell P"""
    m = w.mesh
    cs = getattr(m.cellsize, '_' + AX[a])
    h = w.at(cs, (0,)) if s == 0 else w.at(cs, (w.N[a] + 1,))
    g = metric_factor(w, a, P)
    A = coef_at(w, coefs, a, s, 'a', P)
    Bc = coef_at(w, coefs, a, s, 'b', P)
    C = coef_at(w, coefs, a, s, 'c', P)
    return A * (phi_hi - phi_lo) / (h * g) + Bc * (phi_hi + phi_lo) / 2 - C


def ghost_denominator(w, coefs, a, s, P):
    m = w.mesh
    cs = getattr(m.cellsize, '_' + AX[a])
    h = w.at(cs, (0,)) if s == 0 else w.at(cs, (w.N[a] + 1,))
    g = metric_factor(w, a, P)
    A = coef_at(w, coefs, a, s, 'a', P)
    Bc = coef_at(w, coefs, a, s, 'b', P)
    return (-A / (h * g) + Bc / 2) if s == 0 else (A / (h * g) + Bc / 2)


def boundary_cell(w, P, a, s):
    """interior cell adjacent to side s of axis a with the tangential position of P; and its ghost"""
    Q = list(P)
    Q[a] = 1 if s == 0 else w.N[a]
    G = list(Q)
    G[a] = 0 if s == 0 else w.N[a] + 1
    return tuple(Q), tuple(G)


class _BCOb(Ob):
    props = ('C03', 'C02')
    pattern = 'n'

    def parts(self, w):
        return [(a, s) for a in range(w.nd) for s in (0, 1)]

    def nonzero_hyp(self, w, den):
        return (R.of(den) != 0) if w.symbolic else (abs(den) > 1e-6)


class GhostValues(_BCOb):
    """the array returned by cellValuesWithBoundaries: interior copied; on every non-periodic side the Robin
    relation holds face by face; on an axis declared periodic (on either of its faces) the ghosts wrap, and only
    there"""
    name = 'cellValuesWithBoundaries/robin_or_wrap'

    def setup(self, w):
        BC, coefs = make_bc(w, self.pattern)
        phi = w.array('phi', tuple(w.N))
        out = bnd.cellValuesWithBoundaries(phi, BC)
        return dict(out=out, phi=phi, coefs=coefs)

    def claims(self, w, S, P, part):
        a, s = part
        out = S['out']
        Q, G = boundary_cell(w, P, a, s)
        res = [('interior_copied', w.eq(w.at(out, P), w.at(S['phi'], tuple(p - 1 for p in P))))]
        vg = w.at(out, G)
        vq = w.at(out, Q)
        if self.pattern[a] == 'n':
            lo, hi = (vg, vq) if s == 0 else (vq, vg)
            den = ghost_denominator(w, S['coefs'], a, s, Q)
            resid = robin_residual(w, S['coefs'], a, s, Q, lo, hi)
            if w.symbolic:
                res.append(('robin_relation_on_face[%s]' % SIDES[a][s], (R.of(den) != 0).implies(R.of(resid) == 0)))
            elif abs(den) > 1e-6:
                w.scale = 1e3
                res.append(('robin_relation_on_face[%s]' % SIDES[a][s], w.eq(resid, 0.0)))
        else:
            opp = list(Q)
            opp[a] = w.N[a] if s == 0 else 1
            res.append(('periodic_wrap[%s]' % SIDES[a][s], w.eq(vg, w.at(out, tuple(opp)))))
        return res


class BCRows(_BCOb):
    """rows of boundaryConditionsTerm: for the ghost cell of every boundary face (M phi - RHS)[ghost] is +-(the
    Robin relation) for an arbitrary field (hence no other column), resp. the two periodic relations; rows of
    interior cells are empty"""
    name = 'boundaryConditionsTerm/rows_encode_relation'
    props = ('C03', 'C04', 'C02', 'C07')

    def setup(self, w):
        BC, coefs = make_bc(w, self.pattern)
        M, RHS = bnd.boundaryConditionsTerm(BC)
        phi = w.rawcell('phi')
        return dict(M=M, RHS=RHS, phi=phi._value, coefs=coefs)

    def claims(self, w, S, P, part):
        a, s = part
        Q, G = boundary_cell(w, P, a, s)
        phi = S['phi']
        row = w.apply(S['M'], phi, G) - w.vec(S['RHS'], G)
        res = []
        vg, vq = w.at(phi, G), w.at(phi, Q)
        if self.pattern[a] == 'n':
            lo, hi = (vg, vq) if s == 0 else (vq, vg)
            resid = robin_residual(w, S['coefs'], a, s, Q, lo, hi)
            sign = -1 if s == 0 else 1
            res.append(('row_is_robin_relation[%s]' % SIDES[a][s], w.eq(row, sign * resid)))
        else:
            first = list(Q)
            first[a] = 1
            last = list(Q)
            last[a] = w.N[a]
            g0 = list(Q)
            g0[a] = 0
            g1 = list(Q)
            g1[a] = w.N[a] + 1
            p0, p1, pN, pN1 = (w.at(phi, tuple(x)) for x in (g0, first, last, g1))
            cs = getattr(w.mesh.cellsize, '_' + AX[a])
            h1 = w.at(cs, (0,))
            hN = w.at(cs, (w.N[a] + 1,))
            if s == 0:
                res.append(('periodic_row_value_continuity[%s]' % SIDES[a][s], w.eq(row, p0 + p1 - pN - pN1)))
            else:
                res.append(('periodic_row_gradient_continuity[%s]' % SIDES[a][s],
                            w.eq(row, hN * ((pN1 - pN) / hN - (p1 - p0) / h1))))
        # interior rows of the boundary term are empty
        res.append(('no_interior_rows', w.eq(w.apply(S['M'], phi, P) - w.vec(S['RHS'], P), 0)))
        return res


class GhostsSatisfyRows(_BCOb):
    """the reported ghost values satisfy the solver's boundary rows (mutual consistency)"""
    name = 'boundaryConditionsTerm/rows_satisfied_by_reported_ghosts'
    equal_end_cells = False

    def setup(self, w):
        BC, coefs = make_bc(w, self.pattern)
        M, RHS = bnd.boundaryConditionsTerm(BC)
        phi = w.array('phi', tuple(w.N))
        out = bnd.cellValuesWithBoundaries(phi, BC)
        return dict(M=M, RHS=RHS, out=out, coefs=coefs)

    def claims(self, w, S, P, part):
        a, s = part
        Q, G = boundary_cell(w, P, a, s)
        row = w.apply(S['M'], S['out'], G) - w.vec(S['RHS'], G)
        if self.pattern[a] == 'n':
            den = ghost_denominator(w, S['coefs'], a, s, Q)
            if w.symbolic:
                return [('reported_ghost_satisfies_row[%s]' % SIDES[a][s], (R.of(den) != 0).implies(R.of(row) == 0))]
            if abs(den) <= 1e-6:
                return []
            w.scale = 1e3
            return [('reported_ghost_satisfies_row[%s]' % SIDES[a][s], w.eq(row, 0.0))]
        cs = getattr(w.mesh.cellsize, '_' + AX[a])
        h1 = w.at(cs, (0,))
        hN = w.at(cs, (w.N[a] + 1,))
        if self.equal_end_cells:
            if w.symbolic:
                return [('reported_wrap_satisfies_periodic_row[%s]' % SIDES[a][s], (R.of(h1) == R.of(hN)).implies(R.of(row) == 0))]
            if abs(h1 - hN) > 1e-12:
                return []
        return [('reported_wrap_satisfies_periodic_row[%s]' % SIDES[a][s], w.eq(row, 0))]


class GhostsSatisfyRowsEqualEnds(GhostsSatisfyRows):
    name = 'boundaryConditionsTerm/rows_satisfied_by_reported_ghosts(equal_end_cells)'
    equal_end_cells = True


class ScaleInvariantABC(_BCOb):
    """(a, b, c) -> lambda*(a, b, c), lambda != 0: identical ghost values, rows and RHS scaled by lambda"""
    name = 'boundary/scale_invariant_abc'
    props = ('C03',)

    def setup(self, w):
        lam = w.scalar('lam', 'nonzero')
        BC, coefs = make_bc(w, self.pattern)
        BC2, coefs2 = make_bc(w, self.pattern, scale=lam)
        phi = w.array('phi', tuple(w.N))
        full = w.rawcell('phig')
        M, RHS = bnd.boundaryConditionsTerm(BC)
        M2, RHS2 = bnd.boundaryConditionsTerm(BC2)
        return dict(o1=bnd.cellValuesWithBoundaries(phi, BC), o2=bnd.cellValuesWithBoundaries(phi, BC2),
                    M=M, RHS=RHS, M2=M2, RHS2=RHS2, lam=lam, coefs=coefs, full=full._value)

    def claims(self, w, S, P, part):
        a, s = part
        Q, G = boundary_cell(w, P, a, s)
        out = []
        lam = S['lam']
        den = ghost_denominator(w, S['coefs'], a, s, Q) if self.pattern[a] == 'n' else 1
        e1 = w.eq(w.at(S['o1'], G), w.at(S['o2'], G))
        if w.symbolic:
            out.append(('ghost_values_unchanged[%s]' % SIDES[a][s], (R.of(den) != 0).implies(e1)))
        elif abs(den) > 1e-6:
            w.scale = 1e3
            out.append(('ghost_values_unchanged[%s]' % SIDES[a][s], e1))
        if self.pattern[a] == 'n':
            r1 = w.apply(S['M'], S['full'], G) - w.vec(S['RHS'], G)
            r2 = w.apply(S['M2'], S['full'], G) - w.vec(S['RHS2'], G)
            out.append(('rows_scaled_by_lambda[%s]' % SIDES[a][s], w.eq(r2, lam * r1)))
        return out


def _radial(grid):
    return GRIDS[grid]['radial']


def _patterns(nd, tier):
    allp = [''.join(p) for p in itertools.product('nlr', repeat=nd)]
    if tier == 'thorough':
        return allp
    keep = ['n' * nd]
    for a in range(nd):
        for f in 'lr':
            keep.append('n' * a + f + 'n' * (nd - a - 1))
    keep.append('l' * nd)
    if nd == 3:
        keep += ['nln', 'nnl', 'nrl', 'nlr']
    return [p for p in allp if p in keep]


GENERATED = {}


def _generate():
    for base in (GhostValues, BCRows, GhostsSatisfyRows, GhostsSatisfyRowsEqualEnds, ScaleInvariantABC):
        for nd in (1, 2, 3):
            for pat in _patterns(nd, 'thorough'):
                grids = tuple(g for g, info in GRIDS.items() if info['nd'] == nd and not (info['radial'] and pat[0] != 'n'))
                if not grids:
                    continue
                if base in (GhostsSatisfyRowsEqualEnds,) and 'l' not in pat and 'r' not in pat:
                    continue
                if base is ScaleInvariantABC and pat not in _patterns(nd, 'quick')[:2 + nd]:
                    continue
                cname = '%s_%s' % (base.__name__, pat)
                cls = type(cname, (base,), dict(pattern=pat, grids=grids, name='%s{%s}' % (base.name, pat),
                                                quick=(pat in _patterns(nd, 'quick'))))
                cls.__module__ = __name__
                globals()[cname] = cls
                GENERATED[cname] = cls


_generate()
for _c in (GhostValues, BCRows, GhostsSatisfyRows, GhostsSatisfyRowsEqualEnds, ScaleInvariantABC):
    _c.name = '?'      # abstract: only the generated per-pattern classes are obligations


class PlotProfile(Ob):
    """CellVariable.plotprofile(): the boundary entries are the face averages (ghost + adjacent interior)/2 -- the value
    the boundary relation is stated for -- and the interior entries are the cell values"""
    name = 'CellVariable.plotprofile/boundary_entries_are_face_averages'
    props = ('C03',)

    def region(self, w):
        return [c for a in range(w.nd) for c in (I(w.P[a]) >= 0, I(w.P[a]) <= w.N[a] + 1)]

    def points(self, w):
        return list(itertools.product(*[range(0, n + 2) for n in w.N]))

    def setup(self, w):
        from .solver import make_cellvar
        cv, coefs = make_cellvar(w, 'phi0')
        prof = cv.plotprofile()
        return dict(cv=cv, prof=prof[-1], coords=prof[:-1])

    def claims(self, w, S, P, part=None):
        v = S['cv']._value
        onb = []
        for a in range(w.nd):
            if w.symbolic:
                lo, hi = CTX.decide(I(P[a]) == 0), CTX.decide(I(P[a]) == w.N[a] + 1)
            else:
                lo, hi = P[a] == 0, P[a] == w.N[a] + 1
            onb.append((a, -1 if lo else (1 if hi else 0)))
        nb = [x for x in onb if x[1] != 0]
        got = w.at(S['prof'], P)
        if len(nb) == 0:
            return [('interior_entries_are_cell_values', w.eq(got, w.at(v, P)))]
        if len(nb) == 1:
            a, side = nb[0]
            Q = list(P)
            Q[a] = 1 if side < 0 else w.N[a]
            return [('boundary_entry_is_face_average[%s]' % SIDES[a][0 if side < 0 else 1],
                     w.eq(got, (w.at(v, P) + w.at(v, tuple(Q))) / 2))]
        return []
