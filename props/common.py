"""helpers for the per-property job lists"""
import importlib
from fvverif.runner import obligations_of


ALL_MODULES = ['contracts.' + m for m in ('ops', 'bc', 'solver', 'mesh', 'means', 'limiters', 'state', 'algebra', 'purity', 'loud',
                                            'units', 'embed', 'dmp', 'recompute', 'canaries')]


def jobs_for(prop, modules, tier, quick_skip=()):
    # every contract module is scanned: an obligation belongs to a property through its `props` tag, the MODULES list of
    # a property file only documents where most of its clauses live
    modules = list(modules) + [m for m in ALL_MODULES if m not in modules]
    jobs = obligations_of(modules, prop)
    if tier == 'quick':
        keep = []
        for j in jobs:
            cls = getattr(importlib.import_module(j[0]), j[1])
            if getattr(cls, 'quick', True) is False:
                continue
            if (j[1], j[2]) in quick_skip or j[1] in quick_skip:
                continue
            keep.append(j)
        jobs = keep
    return jobs
