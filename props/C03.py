"""C03 reported boundary values satisfy the configured boundary conditions"""
from .common import jobs_for
LEVEL = 'proof'
LEVEL_TEXT = 'ghost values returned by the real cellValuesWithBoundaries* and the rows of the real boundaryConditionsTerm* are proved, for a symbolic boundary-face cell, symbolic face-wise a,b,c and symbolic fields, to be the Robin relation with the metric factors of angular directions (1/r, 1/(r sin theta)) resp. the periodic wrap exactly on the axes declared periodic; rows vs reported ghosts consistency; invariance under (a,b,c) -> lambda (a,b,c); every side of all 9 grids, periodic-flag patterns enumerated'
LEVEL_NOTE = 'quick tier: periodic patterns none / each single axis declared on either face / all axes / mixed y-z patterns in 3-D; thorough: all 3^d patterns. The four operations (constructor, apply_BCs, solvePDE, solveExplicitPDE) end by calling these functions: see C09/C04 contracts. Corner and edge cells of the boundary matrix are never a column of a face-ghost row (proved by the row identity for arbitrary fields).'
NOT_MACHINE_CHECKED = ["'the solved interior and the reported boundary values are mutually consistent' on periodic axes with unequal end cells (recorded finding: rows encode gradient continuity, reported ghosts wrap)", 'corner / edge bookkeeping cells (never a column of an interior or face-ghost row: proved) have no clause of their own']
MODULES = ['contracts.bc']
TRUSTED = ['A1', 'A2', 'A5', 'A6', 'UF']


def jobs(tier):
    return jobs_for('C03', MODULES, tier)


def extra(tier, seed):
    from fvverif.lean import lemma_status
    ok, detail = lemma_status(['scaled_solution', 'unique_solution'], rebuild=(tier == 'thorough'))
    return [('lean lemmas scaled_solution/unique_solution: multiplying (a,b,c) by lambda scales the boundary rows (SMT, per row); scaled rows + non-singular system => same solution', ok, 'lean:' + detail)]
