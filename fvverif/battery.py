"""Validation of the heap / subclass axioms of the numpy model (DESIGN Appendix C.7-C.9) against the installed
numpy: the same script is run on the real TrackedArray (real numpy) and on the TrackedArray ClassDef re-compiled over
the model's ndarray; every observation must agree (class names ndarray / SymNDArray are identified)."""
import copy


def _script(TA, mk, npx):
    out = []
    a = TA(mk())
    out.append(('new', a.modified, type(a.base).__name__))
    s = a[1:3]
    out.append(('slice', s.modified, type(s.base).__name__, s.base is a))
    ss = s[0:1]
    out.append(('slice2', ss.modified, type(ss.base).__name__, ss.base is a, ss.base is s))
    ss[0] = 5.0
    out.append(('set via slice2', a.modified, s.modified, ss.modified, a._modified, s._modified, ss._modified))
    a.modified = False
    out.append(('reset', a.modified, s.modified, ss.modified, s._modified, ss._modified))
    s[:] = 1.0
    out.append(('set via slice', a.modified, s.modified, ss.modified))
    a.modified = False
    t = a[0:2]
    out.append(('fresh slice after reset', t.modified, s.modified))
    b = TA(a)
    out.append(('TA(TA)', b.modified, type(b.base).__name__, b.base is a))
    b[0] = 2.0
    out.append(('set b', a.modified, b.modified))
    a.modified = False
    b.modified = False
    c = copy.deepcopy(a)
    out.append(('deepcopy', c.modified, type(c).__name__, c.base is None))
    a[0] = 3.0
    out.append(('set a after deepcopy', a.modified, c.modified))
    d = copy.deepcopy(a)
    out.append(('deepcopy dirty', d.modified))
    e = a + 1.0
    out.append(('ufunc', type(e).__name__ in ('TrackedArray',), getattr(e, '_modified', None)))
    f = TA(a + 1.0)
    out.append(('TA(ufunc)', f.modified))
    a.modified = False
    npx.copyto(a, mk())
    out.append(('copyto', a.modified))
    a += 1.0
    out.append(('iadd', a.modified))
    g = npx.copy(a)
    out.append(('np.copy', type(g).__name__ in ('TrackedArray',)))
    h = TA(mk()[1:3])
    out.append(('TA(slice of plain)', h.modified, type(h.base).__name__))
    h[0] = 1.0
    out.append(('set h', h.modified))
    v = h[:]
    v.modified = False
    out.append(('reset via view', h.modified, v.modified))
    a2 = TA(mk())
    a2[a2 > 1.0] = 0.0
    out.append(('mask assignment', a2.modified))
    a3 = TA(mk())
    a3[...] = 2.0
    out.append(('ellipsis assignment', a3.modified))
    return out


def tracked_array_battery():
    """-> list of disagreements (empty = the model's subclass / base / flag semantics match the installed numpy)"""
    from . import trace as T
    from .oblig import reset_ctx
    import numpy as np
    real_TA = T.MODS['utilities'].TrackedArray
    r = _script(real_TA, lambda: np.arange(5.0), np)
    reset_ctx()
    with T.installed():
        m = _script(T.SymTrackedArray, lambda: T.NP.array([0.0, 1.0, 2.0, 3.0, 4.0]), T.NP)
    norm = lambda x: tuple('ndarray' if v == 'SymNDArray' else v for v in x)   # noqa: E731
    return [(a, b) for a, b in zip(r, m) if norm(a) != norm(b)], len(r)


def np_extra_battery():
    """the additional numpy functions of the model (npshim._extra_np) against the installed numpy on concrete arrays;
    -> (list of disagreements, number of comparisons)"""
    from . import trace as T
    from .oblig import reset_ctx
    from .trace import Env, concretize_array
    import numpy as np
    a1 = [1.5, -2.0, 0.25, 4.0, -0.5]
    b1 = [0.5, 3.0, -1.0, 2.0, 8.0]
    a2 = [[1.0, 2.0, -3.0], [0.5, -0.25, 4.0]]
    cases = [
        ('zeros_like', lambda n, x, y, z: n.zeros_like(x)), ('ones_like', lambda n, x, y, z: n.ones_like(z)),
        ('full', lambda n, x, y, z: n.full((3,), 2.5)), ('full_like', lambda n, x, y, z: n.full_like(x, -1.5)),
        ('add', lambda n, x, y, z: n.add(x, y)), ('subtract', lambda n, x, y, z: n.subtract(x, y)),
        ('multiply', lambda n, x, y, z: n.multiply(x, y)), ('divide', lambda n, x, y, z: n.divide(x, y)),
        ('negative', lambda n, x, y, z: n.negative(x)), ('square', lambda n, x, y, z: n.square(x)),
        ('power', lambda n, x, y, z: n.power(y, 2)), ('reciprocal', lambda n, x, y, z: n.reciprocal(y)),
        ('clip', lambda n, x, y, z: n.clip(x, -1.0, 2.0)), ('concatenate', lambda n, x, y, z: n.concatenate([x, y])),
        ('concatenate2', lambda n, x, y, z: n.concatenate([z, z], axis=1)),
        ('diff', lambda n, x, y, z: n.diff(x)), ('diff axis', lambda n, x, y, z: n.diff(z, axis=1)),
        ('flip', lambda n, x, y, z: n.flip(x, 0)), ('flip2', lambda n, x, y, z: n.flip(z, 1)),
        ('pad edge', lambda n, x, y, z: n.pad(x, 1, mode='edge')), ('pad reflect', lambda n, x, y, z: n.pad(x, 1, mode='reflect')),
        ('pad constant', lambda n, x, y, z: n.pad(x, 1, mode='constant')),
        ('squeeze', lambda n, x, y, z: n.squeeze(n.reshape(x, (1, 5)))), ('absolute', lambda n, x, y, z: n.absolute(x)),
        ('atleast_1d', lambda n, x, y, z: n.atleast_1d(x)),
    ]
    diffs = []
    reset_ctx()
    env = Env([1, 1, 1], {})
    for name, fn in cases:
        want = np.asarray(fn(np, np.array(a1), np.array(b1), np.array(a2)), dtype=float)
        try:
            with T.installed():
                got = fn(T.NP, T.NP.array(a1), T.NP.array(b1), T.NP.array(a2))
                g = np.array(concretize_array(got, env), dtype=float).reshape(-1) if hasattr(got, 'shape') else np.array([float(got)])
        except Exception as e:      # noqa: BLE001
            diffs.append((name, 'model raised %s: %s' % (type(e).__name__, e)))
            continue
        w = want.reshape(-1)
        if g.shape != w.shape or not np.allclose(g, w, rtol=0, atol=1e-12):
            diffs.append((name, 'model %s numpy %s' % (g.tolist()[:6], w.tolist()[:6])))
    return diffs, len(cases)
