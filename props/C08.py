"""C08 redundant axes, axis relabelling, mirroring"""
from .common import jobs_for
LEVEL = 'proof'
LEVEL_TEXT = 'relational obligations between two different real builders: for data constant along a coordinate, every axis part of diffusion, central, upwind, TVD and divergence terms on the higher-dimensional grid equals, at a symbolic cell, the corresponding part on the reduced grid and the part of the redundant axis vanishes (all 9 embedding pairs Grid3D-Grid2D-Grid1D, CylindricalGrid3D-CylindricalGrid2D/PolarGrid2D-CylindricalGrid1D, incl. which axis is dropped); ghost values embed likewise; swapping two Cartesian axes permutes and reflecting an axis (velocity component reversed) mirrors every term; boundary rows (boundaryConditionsTerm) embed like the ghost values; on a periodic uniform Cartesian axis a cyclic shift of all data by one cell shifts diffusion, central convection, divergence (and every term along the other axes) by one cell, wrap-around included'
LEVEL_NOTE = 'equality of the solutions follows from equality of the assembled rows and uniqueness (A4), several time steps by induction; cyclic shift: the upwind term and the TVD correction are NOT shift-equivariant across a periodic boundary (refuted obligation replayed on the real code; recorded finding upwind-periodic-not-shift-equivariant, same root cause as upwind-periodic-not-conservative); a shift by s cells follows from the shift by one by iteration (Lean: invariant_iterate)'
NOT_MACHINE_CHECKED = ['the step from equal assembled rows to equal solutions uses non-singularity of the system (assumed, A4) with the Lean lemma unique_solution; the correspondence between the SMT-proved row identities and the lemma hypotheses is by inspection']
MODULES = ['contracts.embed']
TRUSTED = ['A1', 'A2', 'A4', 'A5', 'A6', 'UF']


def jobs(tier):
    return jobs_for('C08', MODULES, tier)


def extra(tier, seed):
    from fvverif.lean import lemma_status
    ok, detail = lemma_status(['unique_solution', 'invariant_iterate'], rebuild=(tier == 'thorough'))
    return [('lean lemmas unique_solution/invariant_iterate: operator-level embedding / permutation / mirror identities (SMT) + uniqueness => solutions correspond; several steps by iteration', ok, 'lean:' + detail)]
