"""The `np` namespace seen by the traced pyfvtool modules, the scipy.sparse.csr_array model (stencil families)
and the spsolve model (uninterpreted solution vector + recorded system)."""
import itertools
from fractions import Fraction
from .ints import IExpr, ICond, I, CTX, OutOfReach, NeedSplit, is_int_like, Lin
from .reals import R, B, is_number, is_scalar, rmin, rmax, rsign
from . import arrays as A
from .arrays import (SymNDArray, Block, elementwise, make_blocks_array, blocks_of, iprod, is_lit, dims_equal,
                     array_from_list, AffineMatcher, to_value, kind_of_scalar)

PI = R.var('pi')


def _shape_arg(shape):
    if isinstance(shape, SymNDArray):
        n = len(shape)
        return tuple(I(shape.at((j,))) for j in range(n))
    if isinstance(shape, (tuple, list)):
        return tuple(I(A._unwrap_int(s)) for s in shape)
    return (I(A._unwrap_int(shape)),)


def _kind_from_dtype(dtype, default='real'):
    if dtype is None:
        return default
    if dtype in (int, 'int', 'int64'):
        return 'int'
    if dtype in (bool, 'bool'):
        return 'bool'
    return 'real'


def zeros(shape, dtype=None):
    kind = _kind_from_dtype(dtype)
    v = {'real': R.const(0), 'int': I(0), 'bool': B.const(False)}[kind]
    return SymNDArray.from_fn(_shape_arg(shape), lambda idx: v, kind, origin='zeros')


def ones(shape, dtype=None):
    kind = _kind_from_dtype(dtype)
    v = {'real': R.const(1), 'int': I(1), 'bool': B.const(True)}[kind]
    return SymNDArray.from_fn(_shape_arg(shape), lambda idx: v, kind, origin='ones')


def array(x, dtype=None, copy=True, **kw):
    if kw:
        raise OutOfReach('numpy.array(%s=...) is not modelled' % sorted(kw)[0])
    if isinstance(x, SymNDArray):
        if copy is False:
            raise OutOfReach('numpy.array(copy=False) is not modelled')
        return x.copy()
    if is_scalar(x):
        k = _kind_from_dtype(dtype, kind_of_scalar(x))
        return SymNDArray.from_fn((), lambda idx: to_value(x, k), k, origin='array')
    out = array_from_list(x)
    if dtype is not None and _kind_from_dtype(dtype) == 'real' and out.kind != 'real':
        out = elementwise(lambda a: R.of(a), (out,), 'real')
    return out


def asarray(x, dtype=None):
    if isinstance(x, SymNDArray):
        if type(x) is SymNDArray:
            return x
        return x.view(SymNDArray)
    return array(x, dtype)


def copy(x):
    if isinstance(x, SymNDArray):
        out = SymNDArray.from_fn(x.shape, x.snap(), x.kind, origin='copy') if not (x.blocks is not None and x.buf.state is None) else x
        return out
    return array(x)


def arange(*args):
    if len(args) == 1:
        a, b = I(0), I(args[0])
    elif len(args) == 2:
        a, b = I(args[0]), I(args[1])
    else:
        raise OutOfReach('np.arange with a step')
    n = b - a
    if not CTX.entails(n >= 0):
        if CTX.entails(n < 0):
            n = I(0)
        else:
            raise NeedSplit(n >= 0)
    out = SymNDArray.from_fn((n,), lambda idx: a + I(idx[0]), 'int', origin='arange')
    out.affine = a
    return out


def concat_axis(arrs, axis):
    nd = arrs[0].ndim
    if any(a.ndim != nd for a in arrs):
        raise ValueError('all the input array dimensions except for the concatenation axis must match exactly')
    for a in arrs[1:]:
        for j in range(nd):
            if j != axis and not dims_equal(a.shape[j], arrs[0].shape[j]):
                raise ValueError('all the input array dimensions except for the concatenation axis must match exactly')
    total = I(0)
    for a in arrs:
        total = total + I(a.shape[axis])
    shape = list(arrs[0].shape)
    shape[axis] = total
    snaps = [(a.snap(), I(a.shape[axis])) for a in arrs]
    kinds = [a.kind for a in arrs]
    kind = 'real' if 'real' in kinds else ('int' if 'int' in kinds else 'bool')

    def fn(idx):
        t = I(idx[axis])
        acc = I(0)
        for sn, n in snaps:
            if CTX.decide(t < acc + n):
                j = list(idx)
                j[axis] = t - acc
                return sn(tuple(j))
            acc = acc + n
        raise IndexError('concatenate index out of range')
    return SymNDArray.from_fn(shape, fn, kind, origin='concatenate')


def hstack(items):
    items = list(items)
    if items and all(isinstance(it, SymNDArray) and it.ndim >= 2 for it in items):
        return concat_axis(items, 1)
    if any(isinstance(it, SymNDArray) and it.ndim >= 2 for it in items):
        raise ValueError('all the input arrays must have same number of dimensions')
    blocks = []
    for it in items:
        if isinstance(it, SymNDArray):
            if it.ndim > 1:
                raise OutOfReach('hstack of %d-d arrays' % it.ndim)
            blocks.extend(blocks_of(it))
        elif is_scalar(it):
            k = kind_of_scalar(it)
            v = to_value(it, k)
            blocks.append(Block((), (lambda idx, v=v: v), k))
        else:
            raise OutOfReach('hstack item %r' % (type(it),))
    out = make_blocks_array(blocks)
    if all(len(b.shape) <= 1 for b in blocks):
        # plain 1-D pieces: give the array an ordinary elementwise state as well
        bl = list(blocks)
        out.buf.state = A.FnState(lambda idx: A._blocks_at(bl, idx))
    return out


def tile(a, reps):
    if isinstance(reps, (tuple, list)):
        reps = tuple(I(A._unwrap_int(r)) for r in reps)
        if not isinstance(a, SymNDArray):
            a = array(a)
        if len(reps) < a.ndim:
            reps = (I(1),) * (a.ndim - len(reps)) + reps
        ashape = (I(1),) * (len(reps) - a.ndim) + tuple(a.shape)
        snap = a.snap()
        off = len(reps) - a.ndim
        shape = []
        mode = []
        for r, s in zip(reps, ashape):
            if A.is_unit(r):
                shape.append(s)
                mode.append('keep')
            elif A.is_unit(s):
                shape.append(r)
                mode.append('bcast')
            else:
                raise OutOfReach('np.tile repeating an axis of size %s' % (s,))

        def fn(idx):
            src = [(I(0) if m == 'bcast' else idx[j]) for j, m in enumerate(mode)]
            return snap(tuple(src[off:]))
        return SymNDArray.from_fn(shape, fn, a.kind, origin='tile')
    reps = I(reps)
    if not reps.is_const():
        raise OutOfReach('np.tile with symbolic repetition count')
    if isinstance(a, SymNDArray) and a.ndim > 1:
        raise OutOfReach('np.tile(nd array, int)')
    bl = blocks_of(a) if isinstance(a, SymNDArray) else [Block((), (lambda idx, v=a: v), kind_of_scalar(a))]
    return hstack_blocks(bl * reps.const_value())


def hstack_blocks(blocks):
    out = make_blocks_array(blocks)
    if all(len(b.shape) <= 1 for b in blocks):
        bl = list(blocks)
        out.buf.state = A.FnState(lambda idx: A._blocks_at(bl, idx))
    return out


def _unary(name):
    def f(x):
        if isinstance(x, SymNDArray):
            return elementwise(lambda a: R.fn(name, R.of(A._num(a))), (x,), 'real')
        return R.fn(name, R.of(A._num(x)))
    f.__name__ = name
    return f


sin = _unary('sin')
cos = _unary('cos')
exp = _unary('exp')
log = _unary('log')
sqrt = _unary('sqrt')


def abs_(x):
    if isinstance(x, SymNDArray):
        return elementwise(A._op_abs, (x,))
    return A._op_abs(x)


def sign(x):
    if isinstance(x, SymNDArray):
        return elementwise(lambda a: rsign(A._num(a)), (x,), 'real')
    return rsign(A._num(x))


def _no_out(name, extra, kw):
    if extra or kw:
        raise OutOfReach('np.%s with out= / extra arguments' % name)


def minimum(a, b, *extra, **kw):
    _no_out('minimum', extra, kw)
    return elementwise(lambda x, y: rmin(A._num(x), A._num(y)), (a, b), 'real')


def maximum(a, b, *extra, **kw):
    _no_out('maximum', extra, kw)
    return elementwise(lambda x, y: rmax(A._num(x), A._num(y)), (a, b), 'real')


def logical_and(a, b):
    return elementwise(lambda x, y: A._tobool(x) & A._tobool(y), (a, b), 'bool')


def logical_or(a, b):
    return elementwise(lambda x, y: A._tobool(x) | A._tobool(y), (a, b), 'bool')


def isscalar(x):
    return is_scalar(x) and not isinstance(x, SymNDArray)


def size(x):
    if isinstance(x, SymNDArray):
        return x.size
    return 1


def reshape(x, shape):
    return A.reshape(x, _shape_arg(shape))


def all_(x):
    if isinstance(x, SymNDArray):
        return x.all()
    return A._tobool(x)


def any_(x):
    if isinstance(x, SymNDArray):
        return x.any()
    return A._tobool(x)


def max_(x):
    if isinstance(x, SymNDArray):
        return x.max()
    return x


def min_(x):
    if isinstance(x, SymNDArray):
        return x.min()
    return x


def sum_(x):
    if isinstance(x, SymNDArray):
        return x.sum()
    return x


def copyto(dst, src):
    if not isinstance(dst, SymNDArray):
        raise TypeError('copyto() argument 1 must be numpy.ndarray')
    dst._write_view(dst._view, src, how='copyto')


def where(c, a, b):
    return elementwise(lambda cc, x, y: R.ite(A._tobool(cc), R.of(A._num(x)), R.of(A._num(y))), (c, a, b), 'real')


def ix_(*seqs):
    out = []
    n = len(seqs)
    for j, sq in enumerate(seqs):
        a = array_from_list(list(sq)) if not isinstance(sq, SymNDArray) else sq
        key = tuple((slice(None) if t == j else None) for t in range(n))
        out.append(a[key])
    return tuple(out)


# ---- further numpy functions (not used by the pinned repository; modelled so that a semantics-preserving refactoring
#      that uses them stays within reach).  Each is expressed through the primitives above.

def _like_shape(a):
    if isinstance(a, SymNDArray):
        return tuple(a.shape)
    return ()


def zeros_like(a, dtype=None):
    return zeros(_like_shape(a), dtype)


def ones_like(a, dtype=None):
    return ones(_like_shape(a), dtype)


def full(shape, fill_value, dtype=None):
    return zeros(shape, dtype) + fill_value


def full_like(a, fill_value, dtype=None):
    return zeros(_like_shape(a), dtype) + fill_value


def _binop(op):
    def f(a, b, *extra, **kw):
        _no_out(op.__name__, extra, kw)
        return op(a, b)
    return f


def negative(a):
    return -a


def square(a):
    return a * a


def power(a, b):
    return a ** b


def reciprocal(a):
    return 1.0 / a


def clip(a, lo, hi):
    return minimum(maximum(a, lo), hi)


def concatenate(items, axis=0):
    items = list(items)
    if all(isinstance(it, SymNDArray) and it.ndim == 1 for it in items) and axis in (0, -1):
        return hstack(items)
    if all(isinstance(it, SymNDArray) for it in items) and len({it.ndim for it in items}) == 1:
        nd = items[0].ndim
        return concat_axis(items, axis % nd)
    raise OutOfReach('numpy.concatenate of these operands is not modelled')


def diff(a, n=1, axis=-1):
    if n != 1 or not isinstance(a, SymNDArray):
        raise OutOfReach('numpy.diff(n=%r) is not modelled' % (n,))
    ax = axis % a.ndim
    hi = [slice(None)] * a.ndim
    lo = [slice(None)] * a.ndim
    hi[ax] = slice(1, None)
    lo[ax] = slice(0, -1)
    return a[tuple(hi)] - a[tuple(lo)]


def squeeze(a, axis=None):
    if not isinstance(a, SymNDArray):
        return a
    if axis is not None:
        raise OutOfReach('numpy.squeeze(axis=...) is not modelled')
    idx = []
    for d in a.shape:
        one = CTX.decide(I(d) == 1)
        idx.append(0 if one else slice(None))
    return a[tuple(idx)]


def flip(a, axis=None):
    if not isinstance(a, SymNDArray) or axis is None:
        raise OutOfReach('numpy.flip without axis is not modelled')
    ax = axis % a.ndim
    snap = a.snap()
    n = I(a.shape[ax])

    def fn(idx):
        j = list(idx)
        j[ax] = n - 1 - I(idx[ax])
        return snap(tuple(j))
    return SymNDArray.from_fn(tuple(a.shape), fn, a.kind if hasattr(a, 'kind') else 'real', origin='flip')


def pad(a, pad_width, mode='constant', **kw):
    if not isinstance(a, SymNDArray) or a.ndim != 1 or pad_width != 1 or kw:
        raise OutOfReach('numpy.pad is modelled for 1-D arrays and pad_width=1 only')
    if mode == 'edge':
        return hstack([a[0], a, a[-1]])
    if mode == 'reflect':
        return hstack([a[1], a, a[-2]])
    if mode == 'constant':
        return hstack([0.0, a, 0.0])
    raise OutOfReach('numpy.pad(mode=%r) is not modelled' % (mode,))


def atleast_1d(a):
    if isinstance(a, SymNDArray) and a.ndim >= 1:
        return a
    return array([a]) if not isinstance(a, SymNDArray) else reshape(a, (1,))


def shape_(a):
    return tuple(a.shape) if isinstance(a, SymNDArray) else ()


def ndim_(a):
    return a.ndim if isinstance(a, SymNDArray) else 0


EXTRA_NP = None


def _extra_np():
    import operator
    return dict(zeros_like=zeros_like, ones_like=ones_like, full=full, full_like=full_like,
                add=_binop(operator.add), subtract=_binop(operator.sub), multiply=_binop(operator.mul),
                divide=_binop(operator.truediv), true_divide=_binop(operator.truediv), negative=negative, square=square,
                power=power, reciprocal=reciprocal, clip=clip, concatenate=concatenate, diff=diff, squeeze=squeeze,
                flip=flip, pad=pad, atleast_1d=atleast_1d, shape=shape_, ndim=ndim_, absolute=abs_, fabs=abs_)


SUSPECT_TOLERANCE_TESTS = ('allclose', 'isclose')


class SuspectConstruct(OutOfReach):
    """not a tool limit: the traced code now branches on an approximate comparison of its data"""


class _NS:
    """attribute container standing in for the numpy module"""

    def __getattr__(self, name):
        # a numpy name the model does not implement is a tool limit (the obligation is then decided by the bounded
        # stand-in on the real code), not a crash of the checker and not an AttributeError of the traced code
        import numpy as _real
        if name in SUSPECT_TOLERANCE_TESTS:
            # a tolerance-based comparison that steers the computation makes the function discontinuous in its data:
            # the contracts (exact identities for ALL inputs) cannot be re-established by tracing one side of it
            raise SuspectConstruct('numpy.%s: tolerance-based test in traced code' % name)
        if hasattr(_real, name):
            raise OutOfReach('numpy.%s is not modelled' % name)
        raise AttributeError(name)


def make_np():
    ns = _NS()
    for _k, _v in _extra_np().items():
        setattr(ns, _k, _v)
    ns.ndarray = SymNDArray
    ns.newaxis = None
    ns.pi = PI
    ns.zeros = zeros
    ns.ones = ones
    ns.array = array
    ns.asarray = asarray
    ns.copy = copy
    ns.arange = arange
    ns.hstack = hstack
    ns.tile = tile
    ns.sin = sin
    ns.cos = cos
    ns.exp = exp
    ns.log = log
    ns.sqrt = sqrt
    ns.abs = abs_
    ns.sign = sign
    ns.minimum = minimum
    ns.maximum = maximum
    ns.logical_and = logical_and
    ns.logical_or = logical_or
    ns.isscalar = isscalar
    ns.size = size
    ns.reshape = reshape
    ns.all = all_
    ns.any = any_
    ns.max = max_
    ns.min = min_
    ns.sum = sum_
    ns.copyto = copyto
    ns.where = where
    ns.ix_ = ix_
    ns.float64 = float
    ns.int64 = int
    return ns


NP = make_np()


# ------------------------------------------------------------------------------------------------
#  sparse matrices as stencil families

class Family:
    __slots__ = ('shape', 'row', 'col', 'val', 'rm', 'cm', 'coef')

    def __init__(self, shape, row, col, val, coef=None, rm=None, cm=None):
        self.shape = shape
        self.row = row      # p -> IExpr (linear row index: plain int expr or Lin atom)
        self.col = col
        self.val = val      # p -> R
        self.coef = R.const(1) if coef is None else coef
        self.rm = rm or AffineMatcher(shape, lambda p: (row(p),))
        self.cm = cm or AffineMatcher(shape, lambda p: (col(p),))

    def scaled(self, c):
        return Family(self.shape, self.row, self.col, self.val, self.coef * c, self.rm, self.cm)


class SymSparse:
    ndim = 2

    def __init__(self, shape, families):
        self.shape = tuple(I(s) for s in shape)
        self.families = list(families)
        self.uid = next(SymSparse._n)
        CTX.events.append(('sparse', self.uid))
    _n = itertools.count(1)

    def copy(self):
        return SymSparse(self.shape, self.families)

    def _check(self, o):
        if not isinstance(o, SymSparse):
            return False
        if not all(dims_equal(a, b) for a, b in zip(self.shape, o.shape)):
            raise ValueError('inconsistent shapes')
        return True

    def __add__(self, o):
        if not self._check(o):
            return NotImplemented
        return SymSparse(self.shape, self.families + o.families)

    def __radd__(self, o):
        if is_number(o) and o == 0:
            return self
        return NotImplemented

    def __sub__(self, o):
        if not self._check(o):
            return NotImplemented
        return SymSparse(self.shape, self.families + [f.scaled(R.const(-1)) for f in o.families])

    def __neg__(self):
        return SymSparse(self.shape, [f.scaled(R.const(-1)) for f in self.families])

    def __pos__(self):
        return self

    def __mul__(self, o):
        if is_scalar(o):
            return SymSparse(self.shape, [f.scaled(R.of(o)) for f in self.families])
        return NotImplemented
    __rmul__ = __mul__

    def __truediv__(self, o):
        if is_scalar(o):
            return SymSparse(self.shape, [f.scaled(R.const(1) / R.of(o)) for f in self.families])
        return NotImplemented

    # ---- queries (row / col are linear indices: IExpr)
    def row_entries(self, r):
        """list of (col linear index, value) of row r; may raise NeedSplit"""
        out = []
        for f in self.families:
            ok, p = f.rm.match((I(r),))
            if ok:
                out.append((I(f.col(p)), f.coef * R.of(f.val(p))))
        return out

    def col_entries(self, c):
        out = []
        for f in self.families:
            ok, p = f.cm.match((I(c),))
            if ok:
                out.append((I(f.row(p)), f.coef * R.of(f.val(p))))
        return out

    def matvec_row(self, r, phi_at):
        """(M phi)[r] with phi_at(linear col index) -> R"""
        s = R.const(0)
        for c, v in self.row_entries(r):
            s = s + v * R.of(phi_at(c))
        return s

    def entry(self, r, c):
        s = R.const(0)
        for cc, v in self.row_entries(r):
            if CTX.decide(lin_equal(cc, c)):
                s = s + v
        return s


def lin_equal(a, b):
    """ICond for equality of two linear indices (plain ints or Lin atoms of the same space)"""
    a, b = I(a), I(b)
    la, lb = a.as_lin(), b.as_lin()
    if la is not None and lb is not None:
        c = ICond.true()
        for x, y in zip(la.idx, lb.idx):
            c = c & (x == y)
        return c
    if la is None and lb is None:
        return a == b
    raise OutOfReach('comparing a cell index with a plain integer: %s vs %s' % (a, b))


def csr_array(arg, shape=None, dtype=None):
    if isinstance(arg, SymSparse):
        return arg.copy()
    data, (ii, jj) = arg
    db, ib, jb = _align_blocks([_triplet_blocks(data), _triplet_blocks(ii), _triplet_blocks(jj)])
    fams = []
    for d, i, j in zip(db, ib, jb):
        i2, j2, d2 = i.squeezed(), j.squeezed(), d.squeezed()
        ref = next((b for b in (i2, j2, d2) if not b.scalar), None)
        if ref is None:
            raise OutOfReach('csr_array: all-scalar triplet block')
        for b in (i2, j2, d2):
            if b.scalar:
                if not dims_equal(b.size, ref.size):
                    raise ValueError('row, column, and data array must all be the same length')
            elif len(b.shape) != len(ref.shape) or not all(dims_equal(x, y) for x, y in zip(b.shape, ref.shape)):
                if not dims_equal(b.size, ref.size):
                    raise ValueError('row, column, and data array must all be the same length')
                raise OutOfReach('csr_array: block shapes differ %s vs %s' % (b.shape, ref.shape))

        def mk(b):
            return (lambda p, b=b: b.fn(() if b.scalar else p))
        if len(ref.shape) >= 1 and A._small_const(ref.shape, 32):
            # short enumerated pieces (corner cells ...): one entry each, no index map to invert
            import itertools as _it
            dims_c = [I(x).const_value() for x in ref.shape]
            for pc in _it.product(*[range(n) for n in dims_c]):
                pi_ = tuple(I(x) for x in pc)
                fams.append(Family((), (lambda p, f=mk(i2), pi_=pi_: f(pi_)), (lambda p, f=mk(j2), pi_=pi_: f(pi_)),
                                   (lambda p, f=mk(d2), pi_=pi_: f(pi_))))
            continue
        fams.append(Family(ref.shape, mk(i2), mk(j2), mk(d2)))
    if shape is None:
        raise OutOfReach('csr_array without shape')
    return SymSparse(_shape_arg(shape), fams)


def _align_blocks(lists):
    """bring the block lists of data / row / col to a common segmentation; a scalar (broadcast) block may be cut
    into pieces matching the structured blocks of the other arrays"""
    pos = [0] * len(lists)
    rem = [None] * len(lists)
    out = [[] for _ in lists]
    while True:
        done = [pos[i] >= len(lists[i]) for i in range(len(lists))]
        if all(done):
            break
        if any(done):
            raise ValueError('row, column, and data array must all be the same length')
        cur = [lists[i][pos[i]] for i in range(len(lists))]
        sizes = [(rem[i] if rem[i] is not None else cur[i].size) for i in range(len(lists))]
        structured = [i for i in range(len(lists)) if not cur[i].scalar]
        target = sizes[structured[0]] if structured else sizes[0]
        for i in range(len(lists)):
            b = cur[i]
            if not b.scalar:
                if not dims_equal(sizes[i], target):
                    raise OutOfReach('csr_array: triplet arrays have different block structures (%s vs %s)' % (sizes[i], target))
                out[i].append(b)
                pos[i] += 1
            else:
                out[i].append(Block((target,), b.fn, b.kind, scalar=True))
                if dims_equal(sizes[i], target):
                    pos[i] += 1
                    rem[i] = None
                else:
                    rem[i] = sizes[i] - target
    return out


def _triplet_blocks(x):
    if not isinstance(x, SymNDArray):
        raise OutOfReach('csr_array triplet of type %r' % (type(x),))
    if x.blocks is not None and x.buf.state is None:
        return x.blocks
    if x.blocks is not None:
        return x.blocks
    return blocks_of(x)


# ------------------------------------------------------------------------------------------------
#  linear solver model (assumption A4)

class SolveRecord:
    def __init__(self, M, RHS, name):
        self.M = M
        self.RHS = RHS
        self.name = name


SOLVES = []


def make_spsolve(tag='spsolve'):
    def spsolve(M, RHS):
        if not isinstance(M, SymSparse):
            raise OutOfReach('spsolve of %r' % (type(M),))
        name = 'x!%s!%d' % (tag, len(SOLVES))
        rec = SolveRecord(M, RHS, name)
        SOLVES.append(rec)
        n = M.shape[0]
        out = SymNDArray.from_fn((n,), lambda idx: R.var(name, (I(idx[0]),)), 'real', origin='solve')
        out.solve_record = rec
        return out
    spsolve.tag = tag
    return spsolve
