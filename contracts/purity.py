"""C15: frame conditions (nothing reachable from the arguments is written or re-bound), freshness of returned
arrays (no aliasing of grid / coefficient / variable storage) and determinism (two calls give the identical result)
for every public builder, mean, gradient, divergence, boundary term, location function and solver."""
from .common import *
from .heap import Frame, flag, arrays_of
from .ops import sym_limiter
from .bc import make_bc
from .solver import make_cellvar, _term_zoo, npshim_reshape_flat
from fvverif import trace as T
from fvverif.arrays import SymNDArray
from fvverif.npshim import SymSparse
from fvverif.reals import R


def _calls(w):
    """[(label, inputs, thunk, allowed paths, result must not alias inputs?)]"""
    m = w.mesh
    D = w.facevar('D')
    u = w.facevar('u')
    uu = w.facevar('uu')
    phi, _ = make_cellvar(w, 'phi0')
    beta, _ = make_cellvar(w, 'beta', bc=False)
    BC, _ = make_bc(w, 'n' * w.nd, prefix='q_')
    inner = w.array('inner', tuple(w.N))
    FL = sym_limiter(w)
    dt = w.scalar('dt', 'pos')
    calls = [
        ('diffusionTerm', (D,), lambda: dif.diffusionTerm(D)),
        ('convectionTerm', (u,), lambda: adv.convectionTerm(u)),
        ('convectionUpwindTerm', (u,), lambda: adv.convectionUpwindTerm(u)),
        ('convectionUpwindTerm(u,u_upwind)', (u, uu), lambda: adv.convectionUpwindTerm(u, uu)),
        ('convectionTVDupwindRHSTerm', (u, phi), lambda: adv.convectionTVDupwindRHSTerm(u, phi, FL)),
        ('divergenceTerm', (u,), lambda: cal.divergenceTerm(u)),
        ('gradientTerm', (phi,), lambda: cal.gradientTerm(phi)),
        ('gradientTermFixedBC', (phi,), lambda: cal.gradientTermFixedBC(phi)),
        ('linearMean', (phi,), lambda: avg.linearMean(phi)),
        ('arithmeticMean', (phi,), lambda: avg.arithmeticMean(phi)),
        ('harmonicMean', (phi,), lambda: avg.harmonicMean(phi)),
        ('geometricMean', (phi,), lambda: avg.geometricMean(phi)),
        ('upwindMean', (phi, u), lambda: avg.upwindMean(phi, u)),
        ('boundaryConditionsTerm', (BC,), lambda: bnd.boundaryConditionsTerm(BC)),
        ('cellValuesWithBoundaries', (inner, BC), lambda: bnd.cellValuesWithBoundaries(inner, BC)),
        ('linearSourceTerm', (beta,), lambda: src_.linearSourceTerm(beta)),
        ('constantSourceTerm', (beta,), lambda: src_.constantSourceTerm(beta)),
        ('transientTerm', (phi,), lambda: src_.transientTerm(phi, dt, 1.0)),
        ('transientTerm(alpha cell)', (phi, beta), lambda: src_.transientTerm(phi, dt, beta)),
        ('cellLocations', (m,), lambda: cel.cellLocations(m)),
        ('faceLocations', (m,), lambda: fac.faceLocations(m)),
        ('mesh.cellvolume', (m,), lambda: m.cellvolume),
        ('mesh.cell_numbers', (m,), lambda: m.cell_numbers()),
        ('CellVariable.domainIntegral', (phi,), lambda: phi.domainIntegral()),
        ('CellVariable.plotprofile', (phi,), lambda: phi.plotprofile()),
        ('BoundaryConditions', (m,), lambda: bnd.BoundaryConditions(m)),
        ('CellVariable(mesh, value)', (m, inner), lambda: cel.CellVariable(m, inner)),
        ('FaceVariable(mesh, scalar)', (m,), lambda: fac.FaceVariable(m, 1.0)),
    ]
    return calls


class BuildersArePure(Ob):
    name = 'builders/frame_fresh_deterministic'
    props = ('C15',)

    def region(self, w):
        return []

    def points(self, w):
        return [()]

    def setup(self, w):
        out = {}
        for label, inputs, thunk in _calls(w):
            f = Frame(w, tuple(inputs) + (w.mesh,))
            r1 = thunk()
            obs = f.done(r1)
            r2 = thunk()
            obs['same'] = _same_result(w, r1, r2)
            out[label] = obs
        return dict(out=out)

    def claims(self, w, S, P, part=None):
        res = []
        for label, o in S['out'].items():
            res.append(('inputs_not_written[%s]' % label, flag(w, not o['written'] and not o['rebound'])))
            res.append(('result_does_not_alias_inputs[%s]' % label, flag(w, not o['aliased'])))
            res.append(('repeatable[%s]' % label, flag(w, o['same'])))
        return res


def _same_result(w, a, b):
    """two results of the same call are identical (symbolically: the same element terms at generic indices)"""
    xa, xb = _flatten(a), _flatten(b)
    if len(xa) != len(xb):
        return False
    for x, y in zip(xa, xb):
        if w.symbolic:
            if isinstance(x, SymSparse) and isinstance(y, SymSparse):
                if len(x.families) != len(y.families):
                    return False
                continue     # element terms of the families are compared through the builders' own contracts (C05)
            if isinstance(x, SymNDArray) and isinstance(y, SymNDArray):
                if len(x.shape) != len(y.shape) or not all(A_dims_equal(p, q) for p, q in zip(x.shape, y.shape)):
                    return False
                continue
            if isinstance(x, (R,)) and isinstance(y, (R,)):
                if x.node[0] == 'v' and str(x.node[1]).startswith('SUM!') and y.node[0] == 'v' and str(y.node[1]).startswith('SUM!'):
                    continue      # opaque totals over a symbolic number of cells (see domainIntegral contract)
                if x is not y:
                    return False
        else:
            np_ = T.real_np
            if hasattr(x, 'toarray'):
                if (x != y).nnz != 0:
                    return False
            elif isinstance(x, np_.ndarray):
                if x.shape != y.shape or not bool(np_.all((x == y) | ((x != x) & (y != y)))):
                    return False
            elif isinstance(x, float):
                if not (x == y or (x != x and y != y)):
                    return False
    return True


def A_dims_equal(p, q):
    from fvverif.arrays import dims_equal
    return dims_equal(p, q)


def _flatten(r):
    out = []
    if isinstance(r, (tuple, list)):
        for x in r:
            out += _flatten(x)
        return out
    if isinstance(r, (SymSparse, SymNDArray, T.real_np.ndarray, R, float)) or hasattr(r, 'toarray'):
        return [r]
    return [a for _, a in arrays_of(r)]


class SolversFrame(Ob):
    """solvePDE writes only its solution variable (terms are reusable); solveMatrixPDE and solveExplicitPDE write
    nothing they are given (a clean input)"""
    name = 'solvers/frame'
    props = ('C15',)

    def region(self, w):
        return []

    def points(self, w):
        return [()]

    def setup(self, w):
        out = {}
        z = _term_zoo(w)
        phi, _ = make_cellvar(w, 'phi0')
        phi.apply_BCs()
        dt = w.scalar('dt', 'pos')
        Mt, Rt = src_.transientTerm(phi, dt, 1.0)
        terms = [(Mt, Rt), -z['Md'], z['Mu'], z['Rg']]
        keep = list(terms)
        # a second variable derived from phi (not passed to the solver): nothing reachable from it may be written either
        bystander = phi.copy()
        f = Frame(w, (terms, [Rt, z['Rg']], w.mesh, bystander))
        r = pde.solvePDE(phi, terms)
        o = f.done(None)
        o['terms_list_unchanged'] = (len(terms) == len(keep) and all(a is b for a, b in zip(terms, keep)))
        out['solvePDE'] = o
        # solveMatrixPDE
        BC, _ = make_bc(w, 'n' * w.nd, prefix='q_')
        Mbc, RHSbc = bnd.boundaryConditionsTerm(BC)
        M = Mbc - z['Md'] + z['Ms']
        RHS = RHSbc + z['Rg']
        f = Frame(w, (RHS, w.mesh))
        r = pde.solveMatrixPDE(w.mesh, M, RHS)
        out['solveMatrixPDE'] = f.done(r)
        # solveExplicitPDE on a clean input
        old, _ = make_cellvar(w, 'old')
        old.apply_BCs()
        rhs = w.array('rhs', w.ghost_shape())
        flat = rhs.ravel() if not w.symbolic else npshim_reshape_flat(w, rhs)
        f = Frame(w, (old, flat, w.mesh))
        new = pde.solveExplicitPDE(old, dt, flat)
        o = f.done(new, allowed_paths=())
        # the result deliberately shares the BC object (and the mesh) with its input: only value storage is compared
        o['aliased'] = [x for x in o['aliased'] if '_value' in x[0] and '_value' in x[1]]
        out['solveExplicitPDE'] = o
        return dict(out=out)

    def claims(self, w, S, P, part=None):
        res = []
        for label, o in S['out'].items():
            res.append(('inputs_not_written[%s]' % label, flag(w, not o['written'] and not o['rebound'])))
            if label != 'solvePDE':
                res.append(('result_does_not_alias_inputs[%s]' % label, flag(w, not o['aliased'])))
            else:
                res.append(('terms_list_unchanged[solvePDE]', flag(w, o['terms_list_unchanged'])))
        return res


class NoNondeterminismInSource(Ob):
    """AST scan of src/pyfvtool: no random / time / id()-dependence, no iteration over sets, no mutable module-level
    state written by functions (determinism of every builder given deterministic numpy/scipy kernels, A3)"""
    name = 'source/no_nondeterminism'
    props = ('C15',)
    grids = ('Grid1D',)

    def region(self, w):
        return []

    def points(self, w):
        return [()]

    def setup(self, w):
        import ast
        import os
        bad = []
        d = os.path.join(T.SRC, 'pyfvtool')
        for fn in sorted(os.listdir(d)):
            if not fn.endswith('.py') or fn == 'visualization.py':
                continue
            tree = ast.parse(open(os.path.join(d, fn)).read())
            for n in ast.walk(tree):
                if isinstance(n, (ast.Import, ast.ImportFrom)):
                    names = [a.name for a in n.names] + ([n.module] if isinstance(n, ast.ImportFrom) and n.module else [])
                    for nm in names:
                        if nm.split('.')[0] in ('random', 'time', 'datetime', 'secrets', 'uuid', 'os', 'threading'):
                            bad.append('%s: import %s' % (fn, nm))
                if isinstance(n, ast.Attribute) and n.attr in ('random', 'rand', 'randn', 'default_rng', 'seed'):
                    bad.append('%s:%d: .%s' % (fn, n.lineno, n.attr))
                if isinstance(n, ast.Call) and isinstance(n.func, ast.Name) and n.func.id in ('id', 'hash', 'set', 'frozenset'):
                    bad.append('%s:%d: %s()' % (fn, n.lineno, n.func.id))
                if isinstance(n, ast.Global):
                    bad.append('%s:%d: global statement' % (fn, n.lineno))
        return dict(bad=bad)

    def claims(self, w, S, P, part=None):
        return [('no_nondeterministic_construct', flag(w, not S['bad']))]


class DomainIntegral(Ob):
    """domainIntegral() is the sum over interior cells of cellvolume[P]*value[P] (the summand is checked per cell;
    the sum over a symbolic number of cells is numpy's)"""
    name = 'CellVariable.domainIntegral/is_volume_weighted_sum'
    props = ('C01', 'C15')

    def setup(self, w):
        phi, _ = make_cellvar(w, 'phi0')
        tot = phi.domainIntegral()
        return dict(phi=phi, tot=tot, V=w.mesh.cellvolume)

    def claims(self, w, S, P, part=None):
        P0 = tuple(p - 1 for p in P)
        if w.symbolic:
            from fvverif.arrays import SUMMANDS
            t = S['tot']
            ok = isinstance(t, R) and t.node[0] == 'v' and t.node[1] in SUMMANDS
            if not ok:
                return [('is_sum_of_volume_times_value', B.const(False))]
            arr = SUMMANDS[t.node[1]]
            if arr.blocks is not None and arr.buf.state is None and len(arr.blocks) == 1:
                v = arr.blocks[0].squeezed().fn(P0)
            else:
                v = arr.at(P0)
            return [('is_sum_of_volume_times_value', w.eq(v, w.at(S['V'], P0) * w.at(S['phi']._value, P)))]
        np_ = T.real_np
        want = float(np_.sum(np_.asarray(S['V']) * np_.asarray(S['phi'].value)))
        return [('is_sum_of_volume_times_value', w.eq(float(S['tot']), want))]
