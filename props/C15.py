"""C15 assembly is pure and deterministic"""
from .common import jobs_for
LEVEL = 'proof'
LEVEL_TEXT = 'frame condition of every public builder, mean, gradient, divergence, boundary term, location function, source term, volume / integral function (28 entry points x 9 grids): the write log of the traced call contains no buffer reachable from any argument or from the mesh, no attribute of a reachable object is re-bound, no returned array lives in a reachable buffer; solvePDE writes only its solution variable and leaves the term list and the term arrays alone, solveMatrixPDE / solveExplicitPDE write nothing they are given; two traces give identical results; AST scan for sources of nondeterminism'
LEVEL_NOTE = 'bit-identical floats additionally need numpy/scipy kernels to be deterministic (A3); sparse results are assumed not to alias the triplet arrays they are built from (scipy copies, A2); native cross-check with snapshots and numpy.shares_memory on every run'
NOT_MACHINE_CHECKED = ['bit-identical repeatability of FLOAT results needs numpy/scipy kernels to be deterministic (A3); symbolically two calls give the identical term / stencil families', 'scipy.sparse results are assumed not to alias the triplet arrays they are built from (A2)']
MODULES = ['contracts.purity']
TRUSTED = ['A1', 'A2', 'A3', 'A5', 'A6']


def jobs(tier):
    return jobs_for('C15', MODULES, tier)
