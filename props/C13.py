"""C13 flux limiters"""
from .common import jobs_for
LEVEL = 'proof'
LEVEL_TEXT = 'each of the 16 limiter closures (and the fallback) is traced on a symbolic real r and proved equal to the published closed form for every real r, every denominator proved non-zero (totality), psi(1)=1, 0<=psi<=min(2r,4) for r>0, clipped family vanishes for r<=0; _fsign never returns 0; every denominator of the 9 TVD builders is non-zero for every field on every well-formed mesh'
LEVEL_NOTE = 'real arithmetic (A1): overflow for |r| beyond ~1e154 is outside the model; elementwise action on arrays of any shape is the lifting of the numpy model, checked differentially on shapes 0-3D'
NOT_MACHINE_CHECKED = ['|r| beyond ~1e154 (r*r overflows in binary64): outside the real-number model (A1)', "'acts elementwise on arrays of any shape' is the lifting of the numpy model's ufuncs, checked differentially against numpy on shapes 0-D..3-D"]
MODULES = ['contracts.limiters', 'contracts.canaries']
TRUSTED = ['A1', 'A2', 'A5', 'A6', 'UF']


def jobs(tier):
    return jobs_for('C13', MODULES, tier)
