"""Validation of the heap / subclass axioms of the numpy model (DESIGN Appendix C.7-C.9) against the installed
numpy: the same script is run on the real TrackedArray (real numpy) and on the TrackedArray ClassDef re-compiled over
the model's ndarray; every observation must agree (class names ndarray / SymNDArray are identified)."""
import copy


def _script(TA, mk, npx):
    out = []
    a = TA(mk())
    out.append(('new', a.modified, type(a.base).__name__))
    s = a[1:3]
    out.append(('slice', s.modified, type(s.base).__name__, s.base is a))
    ss = s[0:1]
    out.append(('slice2', ss.modified, type(ss.base).__name__, ss.base is a, ss.base is s))
    ss[0] = 5.0
    out.append(('set via slice2', a.modified, s.modified, ss.modified, a._modified, s._modified, ss._modified))
    a.modified = False
    out.append(('reset', a.modified, s.modified, ss.modified, s._modified, ss._modified))
    s[:] = 1.0
    out.append(('set via slice', a.modified, s.modified, ss.modified))
    a.modified = False
    t = a[0:2]
    out.append(('fresh slice after reset', t.modified, s.modified))
    b = TA(a)
    out.append(('TA(TA)', b.modified, type(b.base).__name__, b.base is a))
    b[0] = 2.0
    out.append(('set b', a.modified, b.modified))
    a.modified = False
    b.modified = False
    c = copy.deepcopy(a)
    out.append(('deepcopy', c.modified, type(c).__name__, c.base is None))
    a[0] = 3.0
    out.append(('set a after deepcopy', a.modified, c.modified))
    d = copy.deepcopy(a)
    out.append(('deepcopy dirty', d.modified))
    e = a + 1.0
    out.append(('ufunc', type(e).__name__ in ('TrackedArray',), getattr(e, '_modified', None)))
    f = TA(a + 1.0)
    out.append(('TA(ufunc)', f.modified))
    a.modified = False
    npx.copyto(a, mk())
    out.append(('copyto', a.modified))
    a += 1.0
    out.append(('iadd', a.modified))
    g = npx.copy(a)
    out.append(('np.copy', type(g).__name__ in ('TrackedArray',)))
    h = TA(mk()[1:3])
    out.append(('TA(slice of plain)', h.modified, type(h.base).__name__))
    h[0] = 1.0
    out.append(('set h', h.modified))
    v = h[:]
    v.modified = False
    out.append(('reset via view', h.modified, v.modified))
    a2 = TA(mk())
    a2[a2 > 1.0] = 0.0
    out.append(('mask assignment', a2.modified))
    a3 = TA(mk())
    a3[...] = 2.0
    out.append(('ellipsis assignment', a3.modified))
    return out


def tracked_array_battery():
    """-> list of disagreements (empty = the model's subclass / base / flag semantics match the installed numpy)"""
    from . import trace as T
    from .oblig import reset_ctx
    import numpy as np
    real_TA = T.MODS['utilities'].TrackedArray
    r = _script(real_TA, lambda: np.arange(5.0), np)
    reset_ctx()
    with T.installed():
        m = _script(T.SymTrackedArray, lambda: T.NP.array([0.0, 1.0, 2.0, 3.0, 4.0]), T.NP)
    norm = lambda x: tuple('ndarray' if v == 'SymNDArray' else v for v in x)   # noqa: E731
    return [(a, b) for a, b in zip(r, m) if norm(a) != norm(b)], len(r)
