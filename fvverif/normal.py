"""Exact equality of real terms as rational functions (the "exact normaliser" of DESIGN 4.1).

Used by the prover to decide when two applications of an uninterpreted function (sin, cos, exp, log, psi) have EQUAL
arguments without asking the SMT solver for congruence reasoning: every term is brought to a quotient of two
polynomials with rational coefficients over ATOMS (element variables, integer atoms, ite-terms, function applications
-- the latter two identified recursively by the classes of their own sub-terms); two terms are in the same class iff
n1*d2 == n2*d1 as polynomials.  Merging is sound for proving (only provably equal arguments are identified; where a
denominator vanishes both sides are undefined, which the division-safety obligations exclude); not merging is always
sound (weaker hypotheses)."""
from fractions import Fraction
from .ints import I
from .reals import R, B, IdDict

MAX_TERMS = 1500


class TooBig(Exception):
    pass


def p_const(c):
    c = Fraction(c)
    return {(): c} if c != 0 else {}


def p_atom(a):
    return {((a, 1),): Fraction(1)}


def p_add(p, q):
    if not p:
        return q
    if not q:
        return p
    r = dict(p)
    for m, c in q.items():
        v = r.get(m, 0) + c
        if v == 0:
            r.pop(m, None)
        else:
            r[m] = v
    return r


def p_neg(p):
    return {m: -c for m, c in p.items()}


def _mmul(m1, m2):
    if not m1:
        return m2
    if not m2:
        return m1
    d = dict(m1)
    for a, k in m2:
        d[a] = d.get(a, 0) + k
    return tuple(sorted(d.items()))


def p_mul(p, q):
    if not p or not q:
        return {}
    if len(p) * len(q) > MAX_TERMS * 20:
        raise TooBig()
    r = {}
    for m1, c1 in p.items():
        for m2, c2 in q.items():
            m = _mmul(m1, m2)
            v = r.get(m, 0) + c1 * c2
            if v == 0:
                r.pop(m, None)
            else:
                r[m] = v
    if len(r) > MAX_TERMS:
        raise TooBig()
    return r


ONE = p_const(1)


class Classes:
    def __init__(self):
        self.atom_ids = {}
        self.reps = []          # [(num, den)]
        self.memo = IdDict()
        self.cmemo = IdDict()
        self.bmemo = IdDict()

    def atom(self, key):
        i = self.atom_ids.get(key)
        if i is None:
            i = len(self.atom_ids)
            self.atom_ids[key] = i
        return i

    # ---- rational normal form
    def nf(self, e):
        r = self.memo.get(e)
        if r is not None:
            return r
        n = e.node
        t = n[0]
        if t == 'c':
            r = (p_const(n[1]), ONE)
        elif t == 'v':
            r = (p_atom(self.atom(('v', n[1], tuple(I(i).key() for i in n[2])))), ONE)
        elif t == 'i':
            p = {}
            for m, c in n[1].terms.items():
                mono = tuple(sorted((self.atom(('int', a)), k) for a, k in m))
                # merge equal atoms inside one monomial
                d = {}
                for a, k in mono:
                    d[a] = d.get(a, 0) + k
                mono = tuple(sorted(d.items()))
                p = p_add(p, {mono: Fraction(c)})
            r = (p, ONE)
        elif t == '+':
            (a, b), (c, d) = self.nf(n[1]), self.nf(n[2])
            if b is d or b == d:
                r = (p_add(a, c), b)
            else:
                r = (p_add(p_mul(a, d), p_mul(c, b)), p_mul(b, d))
        elif t == '*':
            (a, b), (c, d) = self.nf(n[1]), self.nf(n[2])
            r = (p_mul(a, c), ONE if (b is ONE and d is ONE) else p_mul(b, d))
        elif t == '/':
            (a, b), (c, d) = self.nf(n[1]), self.nf(n[2])
            if not c:
                raise TooBig()      # division by the zero polynomial: leave it to the solver
            r = (p_mul(a, d), p_mul(b, c))
        elif t == 'neg':
            a, b = self.nf(n[1])
            r = (p_neg(a), b)
        elif t == 'pow':
            a, b = self.nf(n[1])
            k = n[2]
            if not isinstance(k, int) or k < 0 or k > 6:
                raise TooBig()
            pa, pb = ONE, ONE
            for _ in range(k):
                pa, pb = p_mul(pa, a), p_mul(pb, b)
            r = (pa, pb)
        elif t == 'ite':
            r = (p_atom(self.atom(('ite', self.bkey(n[1]), self.cls(n[2]), self.cls(n[3])))), ONE)
        elif t == 'f':
            r = (p_atom(self.atom(('f', n[1]) + tuple(self.cls(a) for a in n[2:]))), ONE)
        else:
            raise TooBig()
        self.memo[e] = r
        return r

    def cls(self, e):
        """class id of a real term: equal ids <=> equal as rational functions over the atoms"""
        c = self.cmemo.get(e)
        if c is not None:
            return c
        num, den = self.nf(e)
        for j, (rn, rd) in enumerate(self.reps):
            if (den is rd or den == rd):
                same = (num == rn)
            else:
                same = (p_mul(num, rd) == p_mul(rn, den))
            if same:
                self.cmemo[e] = j
                return j
        self.reps.append((num, den))
        j = len(self.reps) - 1
        self.cmemo[e] = j
        return j

    def bkey(self, b):
        k = self.bmemo.get(b)
        if k is not None:
            return k
        n = b.node
        t = n[0]
        if t == 'b':
            k = ('b', n[1])
        elif t == 'ic':
            k = ('ic', str(n[1]))
        elif t == 'cmp':
            k = ('cmp', n[1], self.cls(n[2]), self.cls(n[3]))
        elif t in ('and', 'or'):
            k = (t, self.bkey(n[1]), self.bkey(n[2]))
        elif t == 'not':
            k = ('not', self.bkey(n[1]))
        else:
            raise TooBig()
        self.bmemo[b] = k
        return k
