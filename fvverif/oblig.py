"""Obligations: definition, symbolic discharge (explore -> leaves -> solver), native evaluation on the real code
(bounded differential stand-in, replay of counter-models, conformance of the model)."""
import itertools
import os
import math
import random
import time
import traceback
from fractions import Fraction
from .ints import IExpr, ICond, I, CTX, OutOfReach, NeedSplit, explore, run_forked
from .reals import R, B, resolve_ints, variables, evaluate, NAN, show
from . import prove
from .prove import canonicalize, hyp_increasing, hyp_all, check_leaf, fn_apps
from . import trace as T
from .trace import GRIDS, AX, SIZE_NAMES, installed, Env, concrete_sizes, real_np
from .world import SymWorld, RealWorld, IDX_NAMES


class NativeFailure(Exception):
    """the real code raised while running a contract's scenario natively on valid inputs"""
    def __init__(self, msg, sizes, seed):
        super().__init__(msg)
        self.sizes, self.seed = sizes, seed


class Ob:
    """One contract clause on one (family of) real function(s).

    setup(w)          -> dict : traces / runs the real functions (both worlds)
    claims(w, S, P)   -> list of (label, formula)   formula built with w.eq / w.le / ...
    region(w)         -> list of ICond over w.P (default: P interior)          [symbolic world only]
    points(w)         -> iterable of concrete P (default: all interior cells)  [real world only]
    hyps(w, groups, apps, out)  additional instantiated preconditions (mesh well-formedness is always added)
    """
    name = '?'
    props = ()
    grids = tuple(GRIDS)
    functions = ()          # qualified names of the real functions under this contract clause
    canary = False          # a deliberately false clause that must be refuted
    bounded_only = False    # outside the reach of the real-arithmetic model (IEEE special values): the clause is only
                            # evaluated natively on a stated scope; reported as a bounded stand-in, never as proved
    decoy_run = True        # run the scenario once on decoy inputs first (history independence of the traced functions)
    uf_congruence = False   # send sin/exp/log/psi to the solver as uninterpreted functions (needed only where two
                            # syntactically different arguments must be recognised as equal)
    tol_scale = 1.0

    def setup(self, w):
        return {}

    def parts(self, w):
        """independent groups of claims (explored separately, e.g. one per axis)"""
        return [None]

    def claims(self, w, S, P, part=None):
        raise NotImplementedError

    def region(self, w):
        return w.interior()

    def points(self, w):
        return w.interior_points()

    def hyps(self, w, groups, apps, out):
        pass

    def oid(self, grid):
        return '%s[%s]' % (self.name, grid)


def mesh_hyps(w, groups, apps, out):
    info = w.info
    for a in range(w.nd):
        name = 'f' + AX[a]
        radial = info['radial'] and a == 0
        lower = R.const(0) if radial else None
        upper = None
        if w.grid == 'SphericalGrid3D' and a == 1:
            lower = R.const(0)
        hyp_increasing(groups, name, out, lower=lower)
        if w.grid == 'SphericalGrid3D' and a == 1:
            hyp_all(groups, name, lambda v: v <= R.var('pi'), out)
    out.append(R.var('pi') > 3)
    out.append(R.var('pi') < 4)
    for name, kind in w.kinds.items():
        if kind == 'pos':
            hyp_all(groups, name, lambda v: v > 0, out)
        elif kind == 'nonneg':
            hyp_all(groups, name, lambda v: v >= 0, out)
        elif kind == 'nonzero':
            hyp_all(groups, name, lambda v: v != 0, out)
    for ap in apps:
        if ap.node[1] == 'sin' and w.grid == 'SphericalGrid3D':
            arg = ap.node[2]
            # polar angle: faces in [0, pi] -> sin >= 0 ; cell centres strictly inside -> sin > 0
            out.append((ap >= 0) if arg.node[0] == 'v' else (ap > 0))
        if ap.node[1] == 'exp':
            out.append(ap > 0)


class LeafResult:
    __slots__ = ('conds', 'label', 'status', 'backend', 'model', 'seconds', 'smt')

    def __init__(self, conds, label, status, backend, model, seconds):
        self.conds = conds
        self.label = label
        self.status = status
        self.backend = backend
        self.model = model
        self.seconds = seconds


BASE_CONDS = [IExpr.sym(n) >= 1 for n in SIZE_NAMES]


def reset_ctx():
    CTX.reset()
    for c in BASE_CONDS:
        CTX.assume(c)
    T.WARNINGS.clear()


def run_symbolic(ob, grid, timeout_ms=20000, max_leaves=3000):
    """-> dict(status, leaves, results, counterexample, error)"""
    reset_ctx()
    prove.USE_UF[0] = bool(ob.uf_congruence)
    prove.LAST_PROVED_SMT[0] = None
    prove.STATS['cvc5_seconds'] = 0.0       # the cross-check budget is per job
    T.reset_called()
    t0 = time.time()
    out = dict(oid=ob.oid(grid), status=None, nleaves=0, results=[], cex=None, error=None, seconds=0.0,
               lia=0, backends={})
    try:
        with installed():
            w = SymWorld(grid)
            # the trace itself may depend on size relations (e.g. `cell_value.size == 1`): split on those first, so
            # that every region of sizes gets one complete trace which all its index regions share
            def setup_with_history():
                # history independence: the scenario is first run on decoy inputs (same mesh, other data); hidden state
                # kept by the traced functions between calls would leak into the run the clauses are stated about
                if getattr(ob, 'decoy_run', True):
                    ob.setup(w.decoy())
                return ob.setup(w)
            setup_leaves = explore(lambda: run_forked(setup_with_history), base=(), max_leaves=64)
            worst = 'proved'
            for sconds, pathconds, S0 in [(sc, pc, S_) for sc, paths in setup_leaves for pc, S_ in paths]:
                def leaf_fn(part, S0=S0, pathconds=pathconds):
                    S = S0
                    cl = ob.claims(w, S, w.P, part)
                    labels = [c[0] for c in cl]
                    exprs = [resolve_ints(B.of(c[1])) for c in cl]
                    pcs = [resolve_ints(B.of(c)) for c in pathconds]
                    allx, groups = canonicalize(exprs + pcs)
                    exprs, pcs = allx[:len(exprs)], allx[len(exprs):]
                    apps = fn_apps(exprs + pcs)
                    hy = list(pcs)
                    mesh_hyps(w, groups, apps, hy)
                    ob.hyps(w, groups, apps, hy)
                    hy = [resolve_ints(B.of(h)) for h in hy]
                    return labels, exprs, hy
                leaves = []
                for part in ob.parts(w):
                    leaves += explore((lambda part=part: leaf_fn(part)), base=tuple(ob.region(w)) + tuple(sconds), max_leaves=max_leaves)
                out['nleaves'] += len(leaves)
                for conds, (labels, exprs, hy) in leaves:
                    for label, claim in zip(labels, exprs):
                        t1 = time.time()
                        st, be, model = check_leaf(claim, hy, region_conds=tuple(BASE_CONDS) + tuple(conds), timeout_ms=timeout_ms)
                        dt = time.time() - t1
                        out['backends'][be] = out['backends'].get(be, 0) + 1
                        out['results'].append((label, st, be, round(dt, 4)))
                        if st == 'refuted' and out['cex'] is None:
                            out['cex'] = extract_cex(w, conds, model, label, claim)
                            worst = 'refuted'
                        elif st == 'unknown' and worst == 'proved':
                            worst = 'unknown'
                            out['error'] = 'solver: %s on %s' % (be, label)
            out['status'] = worst
    except OutOfReach as e:
        from .npshim import SuspectConstruct
        # a tolerance test steering the traced code is reported like an undischarged proof ('unknown'), a missing model
        # function as a tool limit ('out-of-reach')
        out['status'] = 'unknown' if isinstance(e, SuspectConstruct) else 'out-of-reach'
        out['error'] = str(e)
    except (NeedSplit,) as e:
        out['status'] = 'out-of-reach'
        out['error'] = 'undecided at trace time: %s' % e
    except Exception as e:   # noqa: BLE001  -- the traced code itself may raise
        # where was it raised?  inside the symbolic model (fvverif/...) = a construct the model does not support: a tool
        # limit, decided by the bounded stand-in;  inside the repository's code (or a clause) = the traced code fails
        tb = e.__traceback__
        last = None
        while tb is not None:
            last = tb.tb_frame.f_code.co_filename
            tb = tb.tb_next
        in_model = bool(last) and (os.sep + 'fvverif' + os.sep) in last and not isinstance(e, (IndexError, ValueError, ZeroDivisionError))
        out['status'] = 'out-of-reach' if in_model else 'error'
        out['error'] = '%s%s: %s\n%s' % ('model limit: ' if in_model else '', type(e).__name__, e, traceback.format_exc(limit=6))
    out['seconds'] = round(time.time() - t0, 3)
    out['lia'] = CTX.stats['lia_queries']
    out['sample_smt'] = prove.LAST_PROVED_SMT[0]
    out['traced_functions'] = sorted(T.CALLED)
    return out


def extract_cex(w, conds, model, label, claim):
    """concrete sizes / index / element values from a refuted leaf"""
    k = CTX.push(conds)
    try:
        small = [IExpr.sym(n) <= 6 for n in SIZE_NAMES]
        ints = CTX.model_ints(extra=small) or CTX.model_ints()
    finally:
        CTX.pop(k)
    if ints is None:
        return None
    ints = {a: v for a, v in ints.items() if isinstance(a, str)}
    sizes = [max(1, ints.get(n, 1)) for n in SIZE_NAMES]
    env = Env(sizes, {})
    env.sizes.update({a: v for a, v in ints.items()})
    from .reals import _eval_int
    vals = {}
    for name, idx, val in model['vars']:
        cidx = tuple(_eval_int(I(i), env) for i in idx)
        vals.setdefault(name, {})[cidx] = val
    P = tuple(ints.get(n, 1) for n in IDX_NAMES[:w.nd])
    return dict(sizes=sizes[:w.nd], P=list(P), values={n: {','.join(map(str, k)): str(v) for k, v in d.items()}
                                                        for n, d in vals.items()},
                label=label, ints={a: v for a, v in ints.items()}, fapps=[(n, str(v)) for n, v in model['fapps']],
                claim=show(claim, 8))


# ------------------------------------------------------------------------------------------------
#  native side

def run_native(ob, grid, sizes, seed, partial=None, points=None, unit_stress=None):
    """evaluate the clause on the real code; -> list of failing (label, P, detail)"""
    w = RealWorld(grid, sizes, seed=seed, partial=partial)
    if unit_stress:
        w.src.unit_stress = unit_stress
    w.scale = ob.tol_scale
    if getattr(ob, 'decoy_run', True):
        ob.setup(w.decoy())
    S = ob.setup(w)
    bad = []
    pts = points if points is not None else ob.points(w)
    for P in pts:
        for part in ob.parts(w):
            for label, ok in ob.claims(w, S, tuple(P), part):
                if not ok:
                    bad.append((label, tuple(P)))
    return bad, w


def bounded_search(ob, grid, seeds, sizes_list=None):
    """bounded differential stand-in: the clause on the real code for small grids and random rational data"""
    nd = GRIDS[grid]['nd']
    tried = 0
    for seed in seeds:
        rng = random.Random(seed * 7919 + 13)
        sl = sizes_list or [[rng.choice([1, 2, 3, 4]) for _ in range(nd)]]
        for sizes in sl:
            tried += 1
            # every third / fourth seed: the same scenario with all length-like face positions in extreme units (an
            # absolute tolerance or threshold in the code shows only there); never for the IEEE / rank stand-ins
            # (disabled: residuals of exact cancellations are O(coefficient * eps) ~ 1e2 at 1e-9 length units and would be
            #  reported as failures by the absolute part of the tolerance; kept for experiments via VERIF_UNIT_STRESS=1)
            stress = ({2: 1e-9, 3: 1e6}.get(tried % 4) if os.environ.get('VERIF_UNIT_STRESS') and not ob.bounded_only else None)
            try:
                bad, w = run_native(ob, grid, sizes, seed, unit_stress=stress)
            except Exception as e:  # noqa: BLE001
                return dict(found=True, seed=seed, sizes=sizes, failing=[('exception', str(e))], tried=tried)
            if bad:
                return dict(found=True, seed=seed, sizes=list(sizes), failing=[(l, list(p)) for l, p in bad[:5]], tried=tried, unit_stress=stress)
    return dict(found=False, tried=tried)


def replay_cex(ob, grid, cex):
    """run the counter-model on the real code; True if the real code violates the clause there"""
    partial = {}
    for name, d in cex['values'].items():
        partial[name] = {tuple(int(x) for x in k.split(',')) if k else (): Fraction(v) for k, v in d.items()}
    try:
        bad, w = run_native(ob, grid, cex['sizes'], seed=1, partial=partial, points=[tuple(cex['P'])])
    except Exception as e:   # noqa: BLE001
        return True, 'exception on the real code: %s: %s' % (type(e).__name__, e)
    return bool(bad), bad


# ------------------------------------------------------------------------------------------------
#  conformance of the model (DESIGN 4.5)

def conformance(ob, grid, sizes, seed):
    """trace symbolically, run natively with the same inputs, compare every output of setup()"""
    reset_ctx()
    nd = GRIDS[grid]['nd']
    wr = RealWorld(grid, sizes, seed=seed)
    wr.choice_rng = random.Random(seed)
    try:
        Sr = ob.setup(wr)
    except Exception as e:      # noqa: BLE001
        # the REAL code raises on this (valid) input: that is a finding about the code, not about the model
        raise NativeFailure('%s: %s' % (type(e).__name__, e), list(sizes), seed)
    # the builders are verified against the mesh CONTRACT (well_formed); natively the mesh comes from the real
    # constructor: if that one breaks the contract (owner: C10) every property resting on it is broken natively too
    m = getattr(wr, '_mesh', None)
    if m is not None:
        for a in range(nd):
            f = real_np.asarray(getattr(m.facecenters, '_' + AX[a]), dtype=float)
            cs = real_np.asarray(getattr(m.cellsize, '_' + AX[a]), dtype=float)
            cc = real_np.asarray(getattr(m.cellcenters, '_' + AX[a]), dtype=float)
            d = real_np.diff(f)
            want = real_np.concatenate([d[:1], d, d[-1:]])
            if cs.shape != want.shape or not real_np.allclose(cs, want, rtol=1e-12, atol=0) \
                    or not real_np.allclose(cc, (f[1:] + f[:-1]) / 2, rtol=1e-12, atol=1e-300):
                raise NativeFailure('the real mesh constructor violates well_formed(mesh) on axis %s (cell sizes %s, '
                                    'expected %s): the builder contracts assume it (C10)' % (AX[a], cs.tolist()[:6], want.tolist()[:6]),
                                    list(sizes), seed)
    sizes3 = list(sizes) + [1] * (3 - len(sizes))
    env = Env(sizes3, wr.src.values)

    class ConcreteFork:
        """data-dependent branches of the traced code follow the concrete input values"""
        def decide_real(self, b):
            return bool(evaluate(b, env))
    with installed(), concrete_sizes(sizes3):
        ws = SymWorld(grid)
        ws.choice_rng = random.Random(seed)
        old = CTX.trace_fork
        CTX.trace_fork = ConcreteFork()
        try:
            Ss = ob.setup(ws)
        finally:
            CTX.trace_fork = old
    problems = []
    ncmp = 0
    cellshape = tuple(ws.src.size(a) + 2 for a in range(nd))
    with installed(), concrete_sizes(sizes3):
        for key in Ss:
            a, b = Ss[key], Sr.get(key)
            if isinstance(a, (tuple, list)) and isinstance(b, (tuple, list)):
                pairs = [('%s[%d]' % (key, j), x, y) for j, (x, y) in enumerate(zip(a, b))]
            elif isinstance(a, dict) and isinstance(b, dict):
                pairs = [('%s[%s]' % (key, j), a[j], b[j]) for j in a if j in b]
            else:
                pairs = [(key, a, b)]
            more = []
            for nm, x, y in pairs:
                if hasattr(x, '_xvalue') and hasattr(y, '_xvalue'):
                    more += [(nm + '.' + c, getattr(x, c), getattr(y, c)) for c in ('_xvalue', '_yvalue', '_zvalue')]
                elif hasattr(x, '_value') and hasattr(y, '_value') and hasattr(x, 'domain'):
                    more.append((nm + '._value', x._value, y._value))
                else:
                    more.append((nm, x, y))
            pairs = more
            for nm, x, y in pairs:
                if isinstance(x, T.SymSparse):
                    sx = T.concretize_sparse(x, env)
                    ry = y.toarray()
                elif isinstance(x, T.SymNDArray):
                    if getattr(y, 'size', 1) == 0:
                        continue
                    sx = T.concretize_array(x, env, cellshape=cellshape if (x.ndim == 1 and getattr(y, 'ndim', 0) == 1 and nd > 1 and y.shape[0] == math.prod(s + 2 for s in sizes)) else None)
                    ry = real_np.asarray(y)
                else:
                    continue
                ncmp += 1
                problems += T.compare_arrays(sx, ry, '%s %s ' % (ob.oid(grid), nm))
    return ncmp, problems
