#!/usr/bin/env python3
"""splices design_section0.md (+ the seeded-change table from seeded/*/meta.json) into DESIGN.md section 0"""
import json, os, re
ROOT = os.path.dirname(os.path.abspath(__file__))
sec = open(os.path.join(ROOT, 'design_section0.md')).read()
rows = ['| id | breaks | change (first line of the sub-agent\'s notes) | detected by (quick checks, exit 1) | failing obligations (first 2) |', '|---|---|---|---|---|']
sd = os.path.join(ROOT, 'seeded')
for mid in sorted(os.listdir(sd)):
    mp = os.path.join(sd, mid, 'meta.json')
    if not os.path.exists(mp):
        continue
    m = json.load(open(mp))
    first = (m.get('notes', '').strip().splitlines() or [''])[0][:140].replace('|', '/')
    det = m.get('detected_by', [])
    obls = []
    for p in det:
        obls += ['%s:%s' % (p, o) for o in m['detection'][p]['obligations'][:2]]
    rows.append('| %s | %s | %s | %s | %s |' % (mid, m.get('breaks_property'), first, ', '.join(det) or '**none**', '; '.join(obls[:2]).replace('|', '/')))
sec = sec.replace('@@SEEDED_TABLE@@', '\n'.join(rows))
d = open(os.path.join(ROOT, 'DESIGN.md')).read()
a = d.index('## 0. As built')
b = d.index('--------------------------------------------------------------------------------------------------\n\n## 1. Why this family')
d = d[:a] + '## 0. As built\n\n' + sec.strip() + '\n\n\n' + d[b:]
open(os.path.join(ROOT, 'DESIGN.md'), 'w').write(d)
print('DESIGN.md section 0 rebuilt,', len(rows) - 2, 'seeded changes listed')
