"""Contract clauses on the term builders (diffusion / central / upwind / TVD advection, divergence, gradient,
means) -- operator-level identities, per axis, for a symbolic interior cell on every grid class."""
from .common import *
from fvverif.npshim import SymSparse
from fvverif.arrays import SymNDArray
from fvverif import npshim


def ones_field(w):
    return w.np.ones(w.ghost_shape())


def sym_limiter(w):
    """an arbitrary limiter: uninterpreted psi in the symbolic world, a named one natively"""
    names = ['CHARM', 'HQUICK', 'ospre', 'VanLeer', 'VanAlbada1', 'MinMod', 'SUPERBEE', 'Sweby', 'Osher',
             'Koren', 'smart', 'MUSCL', 'QUICK', 'UMIST']
    if getattr(w, 'choice_rng', None) is not None:
        # conformance runs: the same named limiter traced through the model and run natively
        return pf.fluxLimiter(names[w.choice_rng.randrange(len(names))])
    if w.symbolic:
        def FL(r):
            if isinstance(r, SymNDArray):
                return npshim.elementwise(lambda x: R.fn('psi', R.of(x)), (r,), 'real')
            return R.fn('psi', R.of(r))
        return FL
    return pf.fluxLimiter(names[w.rng.randrange(len(names))])


# ------------------------------------------------------------------------------------------------
#  structure: rows, columns, sum of axis parts                                       (C04, C01 locality)

class MatrixStructure(Ob):
    """rows only for interior cells; columns are the cell itself and its two axis neighbours; M = sum of parts"""
    props = ('C04', 'C01')
    stem = None
    mod = None
    coef = 'k'

    def build(self, w):
        return builder(self.mod, self.stem, w.grid)(w.facevar(self.coef))

    def setup(self, w):
        M, ps = parts(self.build(w))
        d = dict(M=M)
        for a, p in enumerate(ps):
            d['M%d' % a] = p
        return d

    def region(self, w):
        # every cell including ghosts
        conds = []
        for a in range(w.nd):
            conds += [I(w.P[a]) >= 0, I(w.P[a]) <= w.N[a] + 1]
        return conds

    def points(self, w):
        import itertools
        return list(itertools.product(*[range(0, n + 2) for n in w.N]))

    def _interior(self, w, P):
        if w.symbolic:
            return all(CTX.decide((I(P[a]) >= 1) & (I(P[a]) <= w.N[a])) for a in range(w.nd))
        return all(1 <= P[a] <= w.N[a] for a in range(w.nd))

    def parts(self, w):
        return list(range(w.nd)) + ['sum']

    def claims(self, w, S, P, part):
        out = []
        nparts = len([k for k in S if k.startswith('M') and k != 'M'])
        if part == 'sum':
            return self._sum_claim(w, S, nparts)
        interior = self._interior(w, P)
        for a in [part]:
            row = w.row(S['M%d' % a], P)
            if not interior:
                ok = all(self._is_zero(w, v) for c, v in row)
                out.append(('rows_only_interior[%s]' % AX[a], w.true() if ok else self._false(w)))
            else:
                ax = a if nparts > 1 else 0
                ok = True
                for c, v in row:
                    if not self._neighbour(w, P, c, ax):
                        ok = ok and self._is_zero(w, v)
                out.append(('cols_are_axis_neighbours[%s]' % AX[a], w.true() if ok else self._false(w)))
        return out

    def _sum_claim(self, w, S, nparts):
        out = []
        if w.symbolic:
            fam_total = [id(f) for f in S['M'].families]
            fam_parts = [id(f) for a in range(nparts) for f in S['M%d' % a].families]
            ok = (nparts == 1 and S['M'] is S['M0']) or fam_total == fam_parts
        else:
            tot = S['M0']
            for a in range(1, nparts):
                tot = tot + S['M%d' % a]
            d = (S['M'] - tot)
            ok = (abs(d).max() if d.nnz else 0.0) <= 1e-12 * max(1.0, abs(S['M']).max() if S['M'].nnz else 1.0)
        out.append(('M_is_sum_of_axis_parts', w.true() if ok else self._false(w)))
        return out

    def _false(self, w):
        return B.const(False) if w.symbolic else False

    def _is_zero(self, w, v):
        if w.symbolic:
            return R.of(v).is_const() and R.of(v).cval() == 0
        return v == 0.0

    def _neighbour(self, w, P, c, ax):
        if w.symbolic:
            cond = ICond.true()
            for b in range(w.nd):
                if b == ax:
                    cond = cond & ((I(c[b]) - I(P[b]) >= -1) & (I(c[b]) - I(P[b]) <= 1))
                else:
                    cond = cond & (I(c[b]) == I(P[b]))
            return CTX.decide(cond)
        return all((abs(c[b] - P[b]) <= 1) if b == ax else (c[b] == P[b]) for b in range(w.nd))


class DiffStructure(MatrixStructure):
    name = 'diffusionTerm/structure'
    stem, mod, coef = 'diffusionTerm', dif, 'D'


class ConvStructure(MatrixStructure):
    name = 'convectionTerm/structure'
    stem, mod, coef = 'convectionTerm', adv, 'u'


class UpwindStructure(MatrixStructure):
    name = 'convectionUpwindTerm/structure'
    stem, mod, coef = 'convectionUpwindTerm', adv, 'u'


class VectorStructure(Ob):
    """vector builders: zero outside interior cells; total = sum of axis parts"""
    props = ('C04', 'C01')

    def region(self, w):
        conds = []
        for a in range(w.nd):
            conds += [I(w.P[a]) >= 0, I(w.P[a]) <= w.N[a] + 1]
        return conds

    def points(self, w):
        import itertools
        return list(itertools.product(*[range(0, n + 2) for n in w.N]))

    def build(self, w):
        raise NotImplementedError

    def setup(self, w):
        V, ps = parts(self.build(w))
        d = dict(V=V)
        for a, p in enumerate(ps):
            d['V%d' % a] = p
        return d

    def parts(self, w):
        return list(range(w.nd)) + ['sum']

    def claims(self, w, S, P, part):
        out = []
        nparts = len([k for k in S if k.startswith('V') and k != 'V'])
        if part == 'sum':
            tot = 0
            for a in range(nparts):
                tot = tot + w.vec(S['V%d' % a], P)
            return [('total_is_sum_of_axis_parts', w.eq(w.vec(S['V'], P), tot))]
        if w.symbolic:
            interior = all(CTX.decide((I(P[a]) >= 1) & (I(P[a]) <= w.N[a])) for a in range(w.nd))
        else:
            interior = all(1 <= P[a] <= w.N[a] for a in range(w.nd))
        if not interior:
            out.append(('zero_outside_interior[%s]' % AX[part], w.eq(w.vec(S['V%d' % part], P), 0)))
        return out


class DivStructure(VectorStructure):
    name = 'divergenceTerm/structure'

    def build(self, w):
        return builder(cal, 'divergenceTerm', w.grid)(w.facevar('F'))


class TvdStructure(VectorStructure):
    name = 'convectionTvdRHS/structure'

    def build(self, w):
        return builder(adv, 'convectionTvdRHS', w.grid)(w.facevar('u'), w.rawcell('phi'), sym_limiter(w))


# ------------------------------------------------------------------------------------------------
#  constants                                                                              (C06)

class DiffConstField(AxisOb):
    name = 'diffusionTerm/const_field'
    props = ('C06', 'C07')

    def setup(self, w):
        M, ps = parts(builder(dif, 'diffusionTerm', w.grid)(w.facevar('D')))
        return dict(ps=ps, one=ones_field(w))

    def claims(self, w, S, P, a):
        Ma = S['ps'][a]
        return [('diffusion_of_constant_is_zero[%s]' % AX[a], w.eq(w.apply(Ma, S['one'], P), 0))]


class ConvConstField(AxisOb):
    name = 'convectionTerm/const_field'
    props = ('C06',)

    def setup(self, w):
        u = w.facevar('u')
        M, ps = parts(builder(adv, 'convectionTerm', w.grid)(u))
        d, ds = parts(builder(cal, 'divergenceTerm', w.grid)(u))
        return dict(ps=ps, ds=ds, one=ones_field(w))

    def claims(self, w, S, P, a):
        Ma = S['ps'][a]
        return [('central_of_constant_is_div_u[%s]' % AX[a], w.eq(w.apply(Ma, S['one'], P), w.vec(S['ds'][a], P)))]


class UpwindConstField(AxisOb):
    name = 'convectionUpwindTerm/const_field'
    props = ('C06', 'C07')
    with_upwind = False

    uu_kind = None

    def setup(self, w):
        u = w.facevar('u')
        args = (w.facevar('uu', self.uu_kind),) if self.with_upwind else ()
        M, ps = parts(builder(adv, 'convectionUpwindTerm', w.grid)(u, *args))
        d, ds = parts(builder(cal, 'divergenceTerm', w.grid)(u))
        return dict(ps=ps, ds=ds, one=ones_field(w))

    def claims(self, w, S, P, a):
        Ma = S['ps'][a]
        return [('upwind_of_constant_is_div_u[%s]' % AX[a], w.eq(w.apply(Ma, S['one'], P), w.vec(S['ds'][a], P)))]


class UpwindConstFieldUU(UpwindConstField):
    name = 'convectionUpwindTerm/const_field+u_upwind'
    with_upwind = True


class UpwindConstFieldUUnz(UpwindConstField):
    """the same clause restricted to upwind-direction fields without exact zeros (the unrestricted clause above is
    a recorded finding; this one keeps the u_upwind code path under proof)"""
    name = 'convectionUpwindTerm/const_field+u_upwind(nonzero)'
    with_upwind = True
    uu_kind = 'nonzero'


class TvdConstField(AxisOb):
    name = 'convectionTvdRHS/const_field'
    props = ('C06',)

    def setup(self, w):
        u = w.facevar('u')
        c = w.scalar('c0')
        phi = T.RawCell(w.mesh, c * ones_field(w))
        V, ps = parts(builder(adv, 'convectionTvdRHS', w.grid)(u, phi, sym_limiter(w)))
        return dict(ps=ps)

    def claims(self, w, S, P, a):
        Va = S['ps'][a]
        return [('tvd_of_constant_is_zero[%s]' % AX[a], w.eq(w.vec(Va, P), 0))]


# ------------------------------------------------------------------------------------------------
#  implicit matrices = explicit chain                                                      (C05)

class DiffEqualsChain(AxisOb):
    name = 'diffusionTerm/equals_div_D_grad'
    props = ('C05',)

    def setup(self, w):
        D = w.facevar('D')
        phi = w.rawcell('phi')
        M, ps = parts(builder(dif, 'diffusionTerm', w.grid)(D))
        g = cal.gradientTerm(phi)
        d, ds = parts(builder(cal, 'divergenceTerm', w.grid)(D * g))
        return dict(ps=ps, ds=ds, phi=phi._value)

    def claims(self, w, S, P, a):
        Ma = S['ps'][a]
        return [('M_phi_is_div_D_grad_phi[%s]' % AX[a], w.eq(w.apply(Ma, S['phi'], P), w.vec(S['ds'][a], P)))]


class ConvEqualsChain(AxisOb):
    name = 'convectionTerm/equals_div_u_linearMean'
    props = ('C05',)

    def setup(self, w):
        u = w.facevar('u')
        phi = w.rawcell('phi')
        M, ps = parts(builder(adv, 'convectionTerm', w.grid)(u))
        d, ds = parts(builder(cal, 'divergenceTerm', w.grid)(u * avg.linearMean(phi)))
        return dict(ps=ps, ds=ds, phi=phi._value)

    def claims(self, w, S, P, a):
        Ma = S['ps'][a]
        return [('M_phi_is_div_u_linearMean_phi[%s]' % AX[a], w.eq(w.apply(Ma, S['phi'], P), w.vec(S['ds'][a], P)))]


class UpwindEqualsChain(AxisOb):
    name = 'convectionUpwindTerm/equals_div_u_upwindMean'
    props = ('C05',)
    with_upwind = False

    uu_kind = None

    def setup(self, w):
        u = w.facevar('u')
        uu = w.facevar('uu', self.uu_kind) if self.with_upwind else u
        args = (uu,) if self.with_upwind else ()
        phi = w.rawcell('phi')
        M, ps = parts(builder(adv, 'convectionUpwindTerm', w.grid)(u, *args))
        d, ds = parts(builder(cal, 'divergenceTerm', w.grid)(u * avg.upwindMean(phi, uu)))
        return dict(ps=ps, ds=ds, phi=phi._value)

    def claims(self, w, S, P, a):
        Ma = S['ps'][a]
        return [('M_phi_is_div_u_upwindMean_phi[%s]' % AX[a], w.eq(w.apply(Ma, S['phi'], P), w.vec(S['ds'][a], P)))]


class UpwindEqualsChainUU(UpwindEqualsChain):
    name = 'convectionUpwindTerm/equals_div_u_upwindMean+u_upwind'
    with_upwind = True


class UpwindEqualsChainUUnz(UpwindEqualsChain):
    name = 'convectionUpwindTerm/equals_div_u_upwindMean+u_upwind(nonzero)'
    with_upwind = True
    uu_kind = 'nonzero'


class TvdZeroLimiter(AxisOb):
    name = 'convectionTvdRHS/zero_limiter_zero'
    props = ('C05',)

    def setup(self, w):
        V, ps = parts(builder(adv, 'convectionTvdRHS', w.grid)(w.facevar('u'), w.rawcell('phi'), (lambda r: 0.0)))
        return dict(ps=ps)

    def claims(self, w, S, P, a):
        Va = S['ps'][a]
        return [('tvd_zero_limiter[%s]' % AX[a], w.eq(w.vec(Va, P), 0))]


from fvverif import trace as T   # noqa: E402


# ------------------------------------------------------------------------------------------------
#  conservation: interior face fluxes cancel                                              (C01)

class _Conservation(AxisOb):
    """For the interior face f between cells P and P+e_a:  V_P*T_P + V_{P+}*T_{P+}  does not depend on the
    coefficient on f (T = the term applied to an arbitrary field incl. ghosts; V = mesh.cellvolume as reported
    by the real _getCellVolumes).  With locality (T_Q mentions only coefficients on faces of Q) this is exactly
    'what leaves a cell through an interior face enters its neighbour'."""
    props = ('C01',)
    coef = 'k'

    def term(self, w, k, phi):
        """-> list of per-axis callables P -> T_P"""
        raise NotImplementedError

    def setup(self, w):
        k = w.facevar(self.coef)
        phi = w.rawcell('phi')
        return dict(T=self.term(w, k, phi), V=w.mesh.cellvolume, k=k)

    def region(self, w):
        # P interior and P+e_a interior is imposed per axis inside claims (needs N_a >= 2)
        return w.interior()

    def points(self, w):
        return w.interior_points()

    def W(self, w, S, P, a):
        Q = shift(P, a, 1)
        return cell_volume(w, S, P) * S['T'][a](P) + cell_volume(w, S, Q) * S['T'][a](Q)

    def claims(self, w, S, P, a):
        fidx = face_idx(P, a, 1)
        name = self.coef + AX[a]
        if w.symbolic:
            if not CTX.decide(I(P[a]) <= w.N[a] - 1):
                return []
            Wv = R.of(self.W(w, S, P, a))
            fresh = R.var(name + "'")
            target = tuple(I(i) for i in fidx)

            def sub(nm, idx):
                if nm == name and all(CTX.decide(I(x) == y) for x, y in zip(idx, target)):
                    return fresh
                return None
            W2 = subst_vars(Wv, sub)
            out = [('interior_face_flux_cancels[%s]' % AX[a], w.eq(Wv, W2))]
            # locality: T_P mentions the a-coefficient only on the two a-faces of P
            TP = R.of(S['T'][a](P))
            lo = tuple(I(i) for i in face_idx(P, a, 0))
            ok = True
            for v in variables(TP):
                if v.node[1] == name:
                    idx = v.node[2]
                    on_lo = all(CTX.decide(I(x) == y) for x, y in zip(idx, lo))
                    on_hi = all(CTX.decide(I(x) == y) for x, y in zip(idx, target))
                    ok = ok and (on_lo or on_hi)
            out.append(('face_coeff_local[%s]' % AX[a], B.const(ok)))
            return out
        if P[a] > w.N[a] - 1:
            return []
        W1 = self.W(w, S, P, a)
        # perturb the coefficient on the shared face and recompute with the real code
        from fvverif.world import RealWorld
        import copy
        w2 = RealWorld(w.grid, w.N, seed=0)
        w2.src.values = {k_: (v.copy() if hasattr(v, 'copy') else v) for k_, v in w.src.values.items()}
        w2.src.constraints = dict(w.src.constraints)
        arr = w2.src.values[name]
        arr[tuple(fidx)] = arr[tuple(fidx)] + 3
        w2.choice_rng = None
        w2.rng = __import__('random').Random(12345)
        w.rng = __import__('random').Random(12345)
        S2 = self.setup(w2)
        W2 = self.W(w2, S2, P, a)
        w.scale = 50.0
        return [('interior_face_flux_cancels[%s]' % AX[a], w.eq(W1, W2))]


class DiffConservation(_Conservation):
    name = 'diffusionTerm/conservation'
    coef = 'D'

    def term(self, w, k, phi):
        M, ps = parts(builder(dif, 'diffusionTerm', w.grid)(k))
        return [(lambda P, Ma=Ma: w.apply(Ma, phi._value, P)) for Ma in ps]


class ConvConservation(_Conservation):
    name = 'convectionTerm/conservation'
    coef = 'u'

    def term(self, w, k, phi):
        M, ps = parts(builder(adv, 'convectionTerm', w.grid)(k))
        return [(lambda P, Ma=Ma: w.apply(Ma, phi._value, P)) for Ma in ps]


class UpwindConservation(_Conservation):
    name = 'convectionUpwindTerm/conservation'
    coef = 'u'

    def term(self, w, k, phi):
        M, ps = parts(builder(adv, 'convectionUpwindTerm', w.grid)(k))
        return [(lambda P, Ma=Ma: w.apply(Ma, phi._value, P)) for Ma in ps]


class TvdConservation(_Conservation):
    name = 'convectionTvdRHS/conservation'
    coef = 'u'

    def term(self, w, k, phi):
        FL = sym_limiter(w)
        V, ps = parts(builder(adv, 'convectionTvdRHS', w.grid)(k, phi, FL))
        return [(lambda P, Va=Va: w.vec(Va, P)) for Va in ps]


class DivConservation(_Conservation):
    name = 'divergenceTerm/conservation'
    coef = 'F'

    def term(self, w, k, phi):
        V, ps = parts(builder(cal, 'divergenceTerm', w.grid)(k))
        return [(lambda P, Va=Va: w.vec(Va, P)) for Va in ps]


# ------------------------------------------------------------------------------------------------
#  TVD with a unit limiter on uniform spacing turns upwind into central                     (C05)

class TvdUnitLimiterIsCentral(AxisOb):
    """FL == 1, uniform spacing on the axis:  (upwind matrix)*phi - TVD_RHS = (central matrix)*phi  for cells whose
    two faces on that axis are interior faces (the boundary faces are treated by the matrix terms alone)"""
    name = 'convectionTvdRHS/unit_limiter_uniform_is_central'
    props = ('C05',)
    boundary_cells = True     # also the cells next to the boundary: there the matrix terms treat the boundary face
                              # (inflow: boundary average) and the correction of that face is zero resp. completes the
                              # donor value to the average on outflow

    def setup(self, w):
        u = w.facevar('u')
        phi = w.rawcell('phi')
        one = (lambda r: 1.0 + 0.0 * r)
        V, vs = parts(builder(adv, 'convectionTvdRHS', w.grid)(u, phi, one))
        Mu, us = parts(builder(adv, 'convectionUpwindTerm', w.grid)(u))
        Mc, cs = parts(builder(adv, 'convectionTerm', w.grid)(u))
        return dict(vs=vs, us=us, cs=cs, phi=phi._value)

    def region(self, w):
        conds = list(w.interior())
        return conds

    def claims(self, w, S, P, a):
        N = w.N[a]
        if not self.boundary_cells:
            if w.symbolic:
                if not (CTX.decide(I(P[a]) >= 2) and CTX.decide(I(P[a]) <= N - 1)):
                    return []
            elif not (2 <= P[a] <= N - 1):
                return []
        lhs = w.apply(S['us'][a], S['phi'], P) - w.vec(S['vs'][a], P)
        rhs = w.apply(S['cs'][a], S['phi'], P)
        # uniform spacing on axis a around P (the two neighbours and P have the same size)
        cs = getattr(w.mesh.cellsize, '_' + AX[a])
        h0, h1, h2 = w.at(cs, (P[a] - 1,)), w.at(cs, (P[a],)), w.at(cs, (P[a] + 1,))
        if w.symbolic:
            hyp = (R.of(h0) == R.of(h1)) & (R.of(h1) == R.of(h2))
            hm, hp = w.at(cs, (P[a] - 2,)) if CTX.decide(I(P[a]) >= 2) else h0, w.at(cs, (P[a] + 2,)) if CTX.decide(I(P[a]) + 2 <= N + 1) else h2
            hyp = hyp & (R.of(hm) == R.of(h1)) & (R.of(hp) == R.of(h1))
            return [('upwind_minus_tvd_is_central[%s]' % AX[a], hyp.implies(w.eq(lhs, rhs)))]
        return [('upwind_minus_tvd_is_central[%s]' % AX[a], w.eq(lhs, rhs))]

    def hyps(self, w, groups, apps, out):
        pass


# ------------------------------------------------------------------------------------------------
#  the public dispatchers select the builder of the grid class and forward their arguments   (C05, C04)

class Dispatchers(Ob):
    """diffusionTerm / convectionTerm / convectionUpwindTerm(u, u_upwind) / convectionTVDupwindRHSTerm(u, phi, FL,
    u_upwind) / divergenceTerm / gradient- and boundary dispatchers call, on every grid class, exactly the grid's own
    builder with exactly the arguments given (in particular u_upwind is forwarded) and return its (first) result.
    Checked by replacing the per-grid builders with recording stand-ins for the duration of the call."""
    name = 'dispatchers/forward_to_grid_builder'
    props = ('C05', 'C04', 'C01', 'C06', 'C03')

    def region(self, w):
        return []

    def points(self, w):
        return [()]

    def setup(self, w):
        import contextlib
        D = w.facevar('D')
        u = w.facevar('u')
        uu = w.facevar('uu', 'nonzero')
        phi = w.rawcell('phi')
        FL = sym_limiter(w)
        g = w.grid
        from .bc import make_bc
        BC, _ = make_bc(w, 'n' * w.nd)
        inner = w.array('inner', tuple(w.N))
        nd = w.nd
        bsuf = {'Grid1D': '1D', 'CylindricalGrid1D': '1D', 'SphericalGrid1D': '1D', 'Grid2D': '2D',
                'CylindricalGrid2D': '2D', 'PolarGrid2D': 'Polar2D', 'Grid3D': '3D', 'CylindricalGrid3D': 'Cylindrical3D',
                'SphericalGrid3D': 'Spherical3D'}[g]
        cases = [
            ('diffusionTerm', dif, 'diffusionTerm', 'diffusionTerm' + SUF[g], (D,), nd > 1),
            ('convectionTerm', adv, 'convectionTerm', 'convectionTerm' + SUF[g], (u,), nd > 1),
            ('convectionUpwindTerm(u)', adv, 'convectionUpwindTerm', 'convectionUpwindTerm' + SUF[g], (u,), nd > 1),
            ('convectionUpwindTerm(u,u_upwind)', adv, 'convectionUpwindTerm', 'convectionUpwindTerm' + SUF[g], (u, uu), nd > 1),
            ('convectionTVDupwindRHSTerm(u,phi,FL)', adv, 'convectionTVDupwindRHSTerm', 'convectionTvdRHS' + SUF[g], (u, phi, FL), nd > 1),
            ('convectionTVDupwindRHSTerm(u,phi,FL,u_upwind)', adv, 'convectionTVDupwindRHSTerm', 'convectionTvdRHS' + SUF[g], (u, phi, FL, uu), nd > 1),
            ('divergenceTerm', cal, 'divergenceTerm', 'divergenceTerm' + SUF[g], (u,), nd > 1),
            ('cellValuesWithBoundaries', bnd, 'cellValuesWithBoundaries', 'cellValuesWithBoundaries' + bsuf, (inner, BC), False),
            ('boundaryConditionsTerm', bnd, 'boundaryConditionsTerm', 'boundaryConditionsTerm' + bsuf, (BC,), False),
        ]
        outcome = {}
        for label, mod, disp, target, args, first in cases:
            calls = []
            sentinel = tuple(object() for _ in range(nd + 1))
            saved = {}
            stems = [n for n in vars(mod) if callable(vars(mod)[n]) and n != disp and
                     (n.startswith(disp if disp != 'convectionTVDupwindRHSTerm' else 'convectionTvdRHS'))]
            try:
                for n in stems:
                    saved[n] = vars(mod)[n]

                    def spy(*a, _n=n, **k):
                        calls.append((_n, a, k))
                        return sentinel
                    vars(mod)[n] = spy
                res = getattr(mod, disp)(*args)
            finally:
                for n, f in saved.items():
                    vars(mod)[n] = f
            ok = (len(calls) == 1 and calls[0][0] == target and len(calls[0][1]) == len(args)
                  and all(x is y for x, y in zip(calls[0][1], args)) and not calls[0][2]
                  and (res is sentinel[0] if first else res is sentinel))
            outcome[label] = (ok, [(c[0], len(c[1])) for c in calls])
        return dict(outcome=outcome)

    def claims(self, w, S, P, part=None):
        return [('dispatch[%s]' % k, (B.const(ok) if w.symbolic else ok)) for k, (ok, info) in S['outcome'].items()]


# ------------------------------------------------------------------------------------------------
#  flux form: V_P * T_P = A_hi*F_hi - A_lo*F_lo with face quantities shared by the two adjacent cells
#  (conservation incl. boundary faces: C01;  metric factors / coefficient placement: C02)

def face_area(w, a, P, side):
    """geometric area of the face of cell P (indices incl. ghosts) normal to axis a, lower (0) / upper (1) side,
    in the grid's coordinate system (unit thickness / full circle / full sphere where the grid has no such axis)"""
    import math
    m = w.mesh
    g = w.grid
    pi = R.var('pi') if w.symbolic else math.pi

    def f(b, k):
        return w.at(getattr(m.facecenters, '_' + AX[b]), (k,))

    def d(b):
        return f(b, P[b]) - f(b, P[b] - 1)
    rf = f(0, P[0] - 1 + side)            # radius of the r-face
    r1, r2 = f(0, P[0] - 1), f(0, P[0])
    if g == 'Grid1D':
        return 1
    if g == 'Grid2D':
        return d(1 - a)
    if g == 'Grid3D':
        o = [b for b in range(3) if b != a]
        return d(o[0]) * d(o[1])
    if g == 'CylindricalGrid1D':
        return 2 * pi * rf
    if g == 'SphericalGrid1D':
        return 4 * pi * rf * rf
    if g == 'CylindricalGrid2D':          # (r, z)
        return 2 * pi * rf * d(1) if a == 0 else pi * (r2 * r2 - r1 * r1)
    if g == 'PolarGrid2D':                # (r, theta)
        return rf * d(1) if a == 0 else d(0)
    if g == 'CylindricalGrid3D':          # (r, theta, z)
        if a == 0:
            return rf * d(1) * d(2)
        if a == 1:
            return d(0) * d(2)
        return (r2 * r2 - r1 * r1) / 2 * d(1)
    raise KeyError(g)


def face_metric(w, a, P):
    """scale factor h_a of direction a at the faces normal to a of cell P (1, r_P)"""
    if a == 1 and w.grid in ('PolarGrid2D', 'CylindricalGrid3D'):
        return w.at(w.mesh.cellcenters._x, (P[0] - 1,))
    return 1


FLUX_GRIDS = tuple(g for g in ALL if g != 'SphericalGrid3D')


class _FluxForm(AxisOb):
    props = ('C01', 'C02')
    grids = FLUX_GRIDS
    coef = 'k'

    def setup(self, w):
        k = w.facevar(self.coef)
        phi = w.rawcell('phi')
        return dict(T=self.term(w, k, phi), V=w.mesh.cellvolume, k=k, phi=phi._value)

    def kf(self, w, S, a, P, side):
        comp = getattr(S['k'], '_' + AX[a] + 'value')
        return w.at(comp, face_idx(P, a, side))

    def flux(self, w, S, a, P, side):
        """numerical flux through the lower/upper a-face of P, written symmetrically in the two adjacent cells"""
        raise NotImplementedError

    def claims(self, w, S, P, a):
        lhs = cell_volume(w, S, P) * S['T'][a](P)
        rhs = face_area(w, a, P, 1) * self.flux(w, S, a, P, 1) - face_area(w, a, P, 0) * self.flux(w, S, a, P, 0)
        if not w.symbolic:
            w.scale = 100.0
        return [('flux_form[%s]' % AX[a], w.eq(lhs, rhs))]


def _lohi(w, S, a, P, side):
    lo = P if side == 1 else shift(P, a, -1)
    hi = shift(P, a, 1) if side == 1 else P
    return lo, hi


class DiffFluxForm(_FluxForm):
    name = 'diffusionTerm/flux_form'
    coef = 'D'

    def term(self, w, k, phi):
        M, ps = parts(builder(dif, 'diffusionTerm', w.grid)(k))
        return [(lambda P, Ma=Ma: w.apply(Ma, phi._value, P)) for Ma in ps]

    def flux(self, w, S, a, P, side):
        lo, hi = _lohi(w, S, a, P, side)
        cs = getattr(w.mesh.cellsize, '_' + AX[a])
        dist = (w.at(cs, (lo[a],)) + w.at(cs, (hi[a],))) / 2
        return self.kf(w, S, a, P, side) * (w.at(S['phi'], hi) - w.at(S['phi'], lo)) / (dist * face_metric(w, a, P))


class ConvFluxForm(_FluxForm):
    name = 'convectionTerm/flux_form'
    coef = 'u'

    def term(self, w, k, phi):
        M, ps = parts(builder(adv, 'convectionTerm', w.grid)(k))
        return [(lambda P, Ma=Ma: w.apply(Ma, phi._value, P)) for Ma in ps]

    def flux(self, w, S, a, P, side):
        lo, hi = _lohi(w, S, a, P, side)
        cs = getattr(w.mesh.cellsize, '_' + AX[a])
        hl, hh = w.at(cs, (lo[a],)), w.at(cs, (hi[a],))
        return self.kf(w, S, a, P, side) * (hh * w.at(S['phi'], lo) + hl * w.at(S['phi'], hi)) / (hl + hh)


class UpwindFluxForm(_FluxForm):
    name = 'convectionUpwindTerm/flux_form'
    coef = 'u'

    def term(self, w, k, phi):
        M, ps = parts(builder(adv, 'convectionUpwindTerm', w.grid)(k))
        return [(lambda P, Ma=Ma: w.apply(Ma, phi._value, P)) for Ma in ps]

    def flux(self, w, S, a, P, side):
        lo, hi = _lohi(w, S, a, P, side)
        u = self.kf(w, S, a, P, side)
        pl, ph = w.at(S['phi'], lo), w.at(S['phi'], hi)
        N = w.N[a]
        if w.symbolic:
            lower_bnd = CTX.decide(I(lo[a]) == 0)
            upper_bnd = CTX.decide(I(hi[a]) == N + 1)
            up_pos = (pl + ph) / 2 if lower_bnd else pl       # inflow through the lower boundary: boundary value
            up_neg = (pl + ph) / 2 if upper_bnd else ph
            return R.ite(R.of(u) > 0, R.of(u) * R.of(up_pos), R.ite(R.of(u) < 0, R.of(u) * R.of(up_neg), R.const(0)))
        up_pos = (pl + ph) / 2 if lo[a] == 0 else pl
        up_neg = (pl + ph) / 2 if hi[a] == N + 1 else ph
        return u * up_pos if u > 0 else (u * up_neg if u < 0 else 0.0)


class DivFluxForm(_FluxForm):
    name = 'divergenceTerm/flux_form'
    coef = 'F'

    def term(self, w, k, phi):
        V, ps = parts(builder(cal, 'divergenceTerm', w.grid)(k))
        return [(lambda P, Va=Va: w.vec(Va, P)) for Va in ps]

    def flux(self, w, S, a, P, side):
        return self.kf(w, S, a, P, side)


class TvdFluxForm(_FluxForm):
    """The TVD correction is the divergence of the limited anti-diffusive flux, for an ARBITRARY limiter psi:
        V_P * (-RHS_P) = A_hi*G_hi - A_lo*G_lo,    G_f = max(u_f,0)*psi_p(f) + min(u_f,0)*psi_m(f),
        psi_p(f) = 1/2 * psi(r_p) * (phi_D - phi_U),  r_p = grad(f-1)/grad(f)      (U, D = lower, upper cell of face f)
        psi_m(f) = 1/2 * psi(r_m) * (phi_U - phi_D),  r_m = grad(f+1)/grad(f)
    with grad(f) the two-point face gradient (difference over centre distance), the ratio guarded by the real
    _fsign (its own contract: C13), and NO correction on the inflow side of a boundary face (psi_p on the first,
    psi_m on the last face of an axis: the matrix terms use the boundary average there).  This pins the gradient
    ratio (which neighbour, which guard), the sign convention and the metric factors of the correction."""
    name = 'convectionTvdRHS/limited_flux_form'
    props = ('C05', 'C02', 'C01')
    coef = 'u'
    uf_congruence = False     # arguments of psi are identified by the exact normaliser (fvverif/normal.py)

    def term(self, w, k, phi):
        FL = sym_limiter(w)
        self._FL = FL
        V, ps = parts(builder(adv, 'convectionTvdRHS', w.grid)(k, phi, FL))
        return [(lambda P, Va=Va: -w.vec(Va, P)) for Va in ps]

    def flux(self, w, S, a, P, side):
        lo, hi = _lohi(w, S, a, P, side)
        u = self.kf(w, S, a, P, side)
        cs = getattr(w.mesh.cellsize, '_' + AX[a])
        phi = S['phi']
        N = w.N[a]

        def grad(L):
            """two-point gradient on the face between cells L and L+e_a"""
            H = shift(L, a, 1)
            return (w.at(phi, H) - w.at(phi, L)) / ((w.at(cs, (L[a],)) + w.at(cs, (H[a],))) / 2)
        if w.symbolic:
            first = CTX.decide(I(lo[a]) == 0)
            last = CTX.decide(I(hi[a]) == N + 1)
        else:
            first, last = lo[a] == 0, hi[a] == N + 1
        g = grad(lo)
        FL = self._FL
        fs = adv._fsign
        if w.symbolic:
            gs = fs(R.of(g)) if not isinstance(g, (int, float)) else fs(g)
        else:
            gs = float(fs(T.real_np.float64(g)))
        d = w.at(phi, hi) - w.at(phi, lo)
        if first:
            psi_p = 0
        else:
            rp = grad(shift(lo, a, -1)) / gs
            psi_p = 0.5 * self._lim(w, FL, rp) * d
        if last:
            psi_m = 0
        else:
            rm = grad(hi) / gs
            psi_m = 0.5 * self._lim(w, FL, rm) * (-d)
        if w.symbolic:
            up = R.ite(R.of(u) > 0, R.of(u), R.const(0))
            um = R.ite(R.of(u) < 0, R.of(u), R.const(0))
            return up * R.of(psi_p) + um * R.of(psi_m)
        return max(u, 0.0) * psi_p + min(u, 0.0) * psi_m

    def _lim(self, w, FL, r):
        if w.symbolic:
            return FL(R.of(r))
        return float(FL(T.real_np.float64(r)))


# ------------------------------------------------------------------------------------------------
#  closed systems: the boundary-face fluxes of the flux form vanish (no-flux walls, u_wall = 0) or cancel
#  (periodic axis, equal end cells, same coefficient on the two identified faces)        (C01 "Hence ...")

class _ClosedSystem(AxisOb):
    props = ('C01',)
    grids = FLUX_GRIDS
    kind = 'noflux'
    flux_cls = None

    def setup(self, w):
        from .bc import make_bc
        ff = self.flux_cls()
        if not w.symbolic and self.kind == 'periodic':
            # native runs: make the hypotheses true (equal end cells, same coefficient on the identified faces)
            from fvverif.trace import increasing_faces, real_np
            m0 = T.make_mesh(w.src, w.grid)
            for a in range(w.nd):
                f = w.src.values['f' + AX[a]]
                f[-1] = f[-2] + (f[1] - f[0])
            w._mesh = None
        if not w.symbolic and self.kind == 'periodic':
            k0 = w.facevar(ff.coef)          # draws the random coefficient values
            for a in range(w.nd):
                arr = w.src.values[ff.coef + AX[a]]
                sl_lo = [slice(None)] * w.nd
                sl_hi = [slice(None)] * w.nd
                sl_lo[a], sl_hi[a] = 0, -1
                arr[tuple(sl_hi)] = arr[tuple(sl_lo)]
        k = w.facevar(ff.coef)
        inner = w.array('phi', tuple(w.N))
        S = dict(k=k)
        self._ff = ff
        S['BCs'] = {}
        for a in range(w.nd):
            if self.kind == 'periodic' and GRIDS[w.grid]['radial'] and a == 0:
                continue
            pat = ['n'] * w.nd
            if self.kind == 'periodic':
                pat[a] = 'l'
            BC = bnd.BoundaryConditions(w.mesh)       # default: no-flux (a=1, b=0, c=0) on every face
            if self.kind == 'periodic':
                getattr(BC, ('left', 'bottom', 'back')[a]).periodic = True
            S['BCs'][a] = bnd.cellValuesWithBoundaries(inner, BC)
        return S

    def parts(self, w):
        return [a for a in range(w.nd) if not (self.kind == 'periodic' and GRIDS[w.grid]['radial'] and a == 0)]

    def claims(self, w, S, P, a):
        ff = self._ff
        Plo = list(P)
        Plo[a] = 1
        Phi = list(P)
        Phi[a] = w.N[a]
        Plo, Phi = tuple(Plo), tuple(Phi)
        S2 = dict(S)
        S2['phi'] = S['BCs'][a]
        Flo = face_area(w, a, Plo, 0) * ff.flux(w, S2, a, Plo, 0)
        Fhi = face_area(w, a, Phi, 1) * ff.flux(w, S2, a, Phi, 1)
        klo = ff.kf(w, S2, a, Plo, 0)
        khi = ff.kf(w, S2, a, Phi, 1)
        cs = getattr(w.mesh.cellsize, '_' + AX[a])
        h1, hN = w.at(cs, (1,)), w.at(cs, (w.N[a],))
        if self.kind == 'noflux':
            if ff.coef == 'u':
                # zero wall-normal velocity
                if w.symbolic:
                    hyp = (R.of(klo) == 0) & (R.of(khi) == 0)
                    return [('wall_fluxes_vanish[%s]' % AX[a], hyp.implies((R.of(Flo) == 0) & (R.of(Fhi) == 0)))]
                return []     # random velocities are not zero at the wall: nothing to evaluate natively
            return [('wall_fluxes_vanish[%s]' % AX[a], (w.eq(Flo, 0) & w.eq(Fhi, 0)) if w.symbolic else (w.eq(Flo, 0) and w.eq(Fhi, 0)))]
        if w.symbolic:
            hyp = (R.of(klo) == R.of(khi)) & (R.of(h1) == R.of(hN))
            return [('periodic_boundary_fluxes_cancel[%s]' % AX[a], hyp.implies(R.of(Flo) == R.of(Fhi)))]
        if abs(klo - khi) > 1e-12 or abs(h1 - hN) > 1e-12:
            return []
        w.scale = 100.0
        return [('periodic_boundary_fluxes_cancel[%s]' % AX[a], w.eq(Flo, Fhi))]


def _mk_closed():
    for nm, fc in (('diffusionTerm', DiffFluxForm), ('convectionTerm', ConvFluxForm), ('convectionUpwindTerm', UpwindFluxForm)):
        for kind in ('noflux', 'periodic'):
            cn = 'Closed_%s_%s' % (nm, kind)
            cls = type(cn, (_ClosedSystem,), dict(name='%s/closed_system(%s)' % (nm, kind), kind=kind, flux_cls=fc))
            cls.__module__ = __name__
            globals()[cn] = cls


_mk_closed()


class _ClosedSystemRows(AxisOb):
    """Closed systems as the IMPLICIT solver sees them: in the system solvePDE assembles the ghost cells are unknowns
    tied to the interior by the rows of boundaryConditionsTerm (not by the reported ghost values).  For ANY full field
    that satisfies the two traced boundary rows of a tangential line, the boundary-face fluxes of the flux form vanish
    (default no-flux rows, zero wall-normal velocity) resp. cancel between the two identified faces (periodic rows,
    same coefficient on the identified faces) -- on arbitrary spacing, also with unequal end cells."""
    props = ('C01',)
    grids = FLUX_GRIDS
    kind = 'noflux'
    flux_cls = None

    def parts(self, w):
        return [a for a in range(w.nd) if not (self.kind == 'periodic' and GRIDS[w.grid]['radial'] and a == 0)]

    def setup(self, w):
        ff = self.flux_cls()
        self._ff = ff
        if not w.symbolic and self.kind == 'periodic':
            w.facevar(ff.coef)          # draws the random coefficient values; then identify the two boundary faces
            for a in range(w.nd):
                arr = w.src.values[ff.coef + AX[a]]
                sl_lo = [slice(None)] * w.nd
                sl_hi = [slice(None)] * w.nd
                sl_lo[a], sl_hi[a] = 0, -1
                arr[tuple(sl_hi)] = arr[tuple(sl_lo)]
        k = w.facevar(ff.coef)
        phi = w.rawcell('phi')
        rows = {}
        for a in self.parts(w):
            BC = bnd.BoundaryConditions(w.mesh)       # default: no-flux (a=1, b=0, c=0) on every face
            if self.kind == 'periodic':
                getattr(BC, ('left', 'bottom', 'back')[a]).periodic = True
            rows[a] = bnd.boundaryConditionsTerm(BC)
        return dict(k=k, phi=phi._value, rowsM={a: r[0] for a, r in rows.items()}, rowsR={a: r[1] for a, r in rows.items()})

    def claims(self, w, S, P, a):
        ff = self._ff
        Plo, Phi = list(P), list(P)
        Plo[a], Phi[a] = 1, w.N[a]
        Glo, Ghi = list(P), list(P)
        Glo[a], Ghi[a] = 0, w.N[a] + 1
        Plo, Phi, Glo, Ghi = tuple(Plo), tuple(Phi), tuple(Glo), tuple(Ghi)
        M, RHS = S['rowsM'][a], S['rowsR'][a]
        phi = S['phi']
        S2 = dict(S)
        lab = ('wall_fluxes_vanish_under_solver_rows[%s]' if self.kind == 'noflux' else 'periodic_fluxes_cancel_under_solver_rows[%s]') % AX[a]
        klo = ff.kf(w, S2, a, Plo, 0)
        khi = ff.kf(w, S2, a, Phi, 1)
        if w.symbolic:
            rlo = w.apply(M, phi, Glo) - w.vec(RHS, Glo)
            rhi = w.apply(M, phi, Ghi) - w.vec(RHS, Ghi)
            Flo = face_area(w, a, Plo, 0) * ff.flux(w, S2, a, Plo, 0)
            Fhi = face_area(w, a, Phi, 1) * ff.flux(w, S2, a, Phi, 1)
            hyp = (R.of(rlo) == 0) & (R.of(rhi) == 0)
            if self.kind == 'noflux':
                if ff.coef == 'u':
                    hyp = hyp & (R.of(klo) == 0) & (R.of(khi) == 0)
                return [(lab, hyp.implies((R.of(Flo) == 0) & (R.of(Fhi) == 0)))]
            hyp = hyp & (R.of(klo) == R.of(khi))
            return [(lab, hyp.implies(R.of(Flo) == R.of(Fhi)))]
        # native: make the hypothesis true on this tangential line by solving the two row equations for the two ghost
        # values (the rows are affine in them), unless the given data (a replayed counter-model) already satisfy them
        if self.kind == 'noflux' and ff.coef == 'u':
            return []        # random velocities are not zero at the wall
        if abs(klo - khi) > 1e-12 and self.kind == 'periodic':
            return []
        np_ = T.real_np
        phi = np_.array(phi, dtype=float)

        def resid(glo, ghi):
            phi[Glo], phi[Ghi] = glo, ghi
            return np_.array([w.apply(M, phi, Glo) - w.vec(RHS, Glo), w.apply(M, phi, Ghi) - w.vec(RHS, Ghi)])
        g0 = (float(phi[Glo]), float(phi[Ghi]))
        r0 = resid(*g0)
        if max(abs(r0)) > 1e-9:
            z = resid(0.0, 0.0)
            A = np_.column_stack([resid(1.0, 0.0) - z, resid(0.0, 1.0) - z])
            if abs(np_.linalg.det(A)) < 1e-12:
                return []
            g = np_.linalg.solve(A, -z)
            resid(float(g[0]), float(g[1]))
        S2['phi'] = phi
        Flo = face_area(w, a, Plo, 0) * ff.flux(w, S2, a, Plo, 0)
        Fhi = face_area(w, a, Phi, 1) * ff.flux(w, S2, a, Phi, 1)
        w.scale = 1e3
        if self.kind == 'noflux':
            return [(lab, w.eq(Flo, 0.0) and w.eq(Fhi, 0.0))]
        return [(lab, w.eq(Flo, Fhi))]


def _mk_closed_rows():
    for nm, fc in (('diffusionTerm', DiffFluxForm), ('convectionTerm', ConvFluxForm), ('convectionUpwindTerm', UpwindFluxForm)):
        for kind in ('noflux', 'periodic'):
            cn = 'ClosedRows_%s_%s' % (nm, kind)
            grids = tuple(g for g in FLUX_GRIDS if not (kind == 'periodic' and GRIDS[g]['radial'] and GRIDS[g]['nd'] == 1))
            cls = type(cn, (_ClosedSystemRows,), dict(name='%s/closed_system_rows(%s)' % (nm, kind), kind=kind, flux_cls=fc, grids=grids))
            cls.__module__ = __name__
            globals()[cn] = cls


_mk_closed_rows()


# ------------------------------------------------------------------------------------------------
#  M-matrix sign structure of  S = -diffusion + upwind  (per axis)                          (C07)

class SignStructure(AxisOb):
    """row P of S_a = -diffusionTerm_a(D) + convectionUpwindTerm_a(u), D >= 0: both off-diagonal entries (towards the
    lower and the upper neighbour on axis a, which is a ghost cell next to the boundary) are <= 0, there is no other
    entry, and the diagonal equals minus their sum plus (div_a u)_P.  With alpha/dt > 0, beta >= 0 and div u = 0
    this is the hypothesis set of the discrete maximum principle lemma (lemmas/FVLemmas.lean: dmp_upper)."""
    name = 'diffusion+upwind/m_matrix_sign_structure'
    props = ('C07',)

    def setup(self, w):
        D = w.facevar('D', 'nonneg')
        u = w.facevar('u')
        Md, ds = parts(builder(dif, 'diffusionTerm', w.grid)(D))
        Mu, us = parts(builder(adv, 'convectionUpwindTerm', w.grid)(u))
        dv, dvs = parts(builder(cal, 'divergenceTerm', w.grid)(u))
        return dict(ds=ds, us=us, dvs=dvs)

    def _entries(self, w, S, P, a):
        row = {}
        for sign, M in ((-1, S['ds'][a]), (1, S['us'][a])):
            for c, v in w.row(M, P):
                off = None
                for d in (-1, 0, 1):
                    Q = shift(P, a, d)
                    if w.symbolic:
                        same = all(CTX.decide(I(x) == I(y)) for x, y in zip(c, Q))
                    else:
                        same = tuple(c) == tuple(Q)
                    if same:
                        off = d
                        break
                if off is None:
                    row.setdefault('other', []).append(v)
                else:
                    row[off] = row.get(off, 0) + sign * v
        return row

    def claims(self, w, S, P, a):
        row = self._entries(w, S, P, a)
        lo, hi, dg = row.get(-1, 0), row.get(1, 0), row.get(0, 0)
        div = w.vec(S['dvs'][a], P)
        other_ok = 'other' not in row
        if not w.symbolic:
            w.scale = 100.0
        return [('offdiag_lower_nonpositive[%s]' % AX[a], w.le(lo, 0)),
                ('offdiag_upper_nonpositive[%s]' % AX[a], w.le(hi, 0)),
                ('diag_is_minus_offdiag_plus_div_u[%s]' % AX[a], w.eq(dg, -(lo + hi) + div)),
                ('no_other_entries[%s]' % AX[a], (B.const(other_ok) if w.symbolic else other_ok))]


class CanaryCentralIsMMatrix(SignStructure):
    """central differencing does not have the sign structure (must be refuted)"""
    name = 'canary/central_scheme_has_m_matrix_signs'
    grids = ('Grid1D', 'PolarGrid2D')
    canary = True

    def setup(self, w):
        D = w.facevar('D', 'nonneg')
        u = w.facevar('u')
        Md, ds = parts(builder(dif, 'diffusionTerm', w.grid)(D))
        Mu, us = parts(builder(adv, 'convectionTerm', w.grid)(u))
        dv, dvs = parts(builder(cal, 'divergenceTerm', w.grid)(u))
        return dict(ds=ds, us=us, dvs=dvs)

    def claims(self, w, S, P, a):
        return [c for c in super().claims(w, S, P, a) if c[0].startswith('offdiag_upper')]


# ------------------------------------------------------------------------------------------------
#  SphericalGrid3D: consistency with the continuous operator in the centre-metric form            (C02)
#  (1/J) d_a( (J/h_a) F_a ),  J = r^2 sin(theta), h = (1, r, r sin(theta)), with J evaluated at the cell centre for
#  the divisor and at (face coordinate on axis a, centre coordinates otherwise) for the face weights.
#  The library's cellvolume is a different measure (recorded finding), so this is stated with the centre measure.

def _sph_center_volume(w, P):
    m = w.mesh
    r = w.at(m.cellcenters._x, (P[0] - 1,))
    th = w.at(m.cellcenters._y, (P[1] - 1,))
    d = [w.at(getattr(m.facecenters, '_' + AX[b]), (P[b],)) - w.at(getattr(m.facecenters, '_' + AX[b]), (P[b] - 1,)) for b in range(3)]
    return r * r * w.fn('sin', th) * d[0] * d[1] * d[2]


def _sph_face_weight(w, a, P, side):
    m = w.mesh
    r = w.at(m.cellcenters._x, (P[0] - 1,))
    th = w.at(m.cellcenters._y, (P[1] - 1,))
    d = [w.at(getattr(m.facecenters, '_' + AX[b]), (P[b],)) - w.at(getattr(m.facecenters, '_' + AX[b]), (P[b] - 1,)) for b in range(3)]
    if a == 0:
        rf = w.at(m.facecenters._x, (P[0] - 1 + side,))
        return rf * rf * w.fn('sin', th) * d[1] * d[2]
    if a == 1:
        thf = w.at(m.facecenters._y, (P[1] - 1 + side,))
        return r * w.fn('sin', thf) * d[0] * d[2]
    return r * d[0] * d[1]


def _sph_metric(w, a, P):
    m = w.mesh
    r = w.at(m.cellcenters._x, (P[0] - 1,))
    if a == 1:
        return r
    if a == 2:
        return r * w.fn('sin', w.at(m.cellcenters._y, (P[1] - 1,)))
    return 1


def _mk_sph():
    for base in (DiffFluxForm, ConvFluxForm, UpwindFluxForm, DivFluxForm):
        class Sph(base):
            props = ('C02',)
            grids = ('SphericalGrid3D',)

            def claims(self, w, S, P, a):
                lhs = _sph_center_volume(w, P) * S['T'][a](P)
                rhs = _sph_face_weight(w, a, P, 1) * self.flux(w, S, a, P, 1) - _sph_face_weight(w, a, P, 0) * self.flux(w, S, a, P, 0)
                if not w.symbolic:
                    w.scale = 100.0
                return [('centre_metric_flux_form[%s]' % AX[a], w.eq(lhs, rhs))]
        if base is DiffFluxForm:
            def flux(self, w, S, a, P, side):
                lo, hi = _lohi(w, S, a, P, side)
                cs = getattr(w.mesh.cellsize, '_' + AX[a])
                dist = (w.at(cs, (lo[a],)) + w.at(cs, (hi[a],))) / 2
                return self.kf(w, S, a, P, side) * (w.at(S['phi'], hi) - w.at(S['phi'], lo)) / (dist * _sph_metric(w, a, P))
            Sph.flux = flux
        Sph.__name__ = 'Sph' + base.__name__
        Sph.__qualname__ = Sph.__name__
        Sph.name = base.name.replace('flux_form', 'centre_metric_flux_form')
        Sph.__module__ = __name__
        globals()[Sph.__name__] = Sph


_mk_sph()


# ------------------------------------------------------------------------------------------------
#  gradientTermFixedBC: the gradient with the boundary faces doubled (ghost cells holding face values)   (C05)

class GradientFixedBC(AxisOb):
    """gradientTermFixedBC(phi) = gradientTerm(phi) on every interior face and twice that on the first and the last face
    of each axis (the 'ghost' entry then holds the boundary-FACE value, half a cell away); gradientTerm itself is the
    two-point difference over the metric centre distance (pinned through the flux-form and chain clauses)"""
    name = 'gradientTermFixedBC/doubles_boundary_faces'
    props = ('C05',)

    def setup(self, w):
        phi = w.rawcell('phi')
        return dict(g=cal.gradientTerm(phi), gf=cal.gradientTermFixedBC(phi))

    def claims(self, w, S, P, a):
        comp = '_' + AX[a] + 'value'
        res = []
        for side in (0, 1):
            fidx = face_idx(P, a, side)
            if w.symbolic:
                bnd_face = CTX.decide(I(fidx[a]) == 0) or CTX.decide(I(fidx[a]) == w.N[a])
            else:
                bnd_face = fidx[a] in (0, w.N[a])
            want = (2 if bnd_face else 1) * w.at(getattr(S['g'], comp), fidx)
            res.append(('fixedBC_gradient[%s,%s]' % (AX[a], 'lower' if side == 0 else 'upper'),
                        w.eq(w.at(getattr(S['gf'], comp), fidx), want)))
        return res
