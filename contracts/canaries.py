"""Deliberately false clauses: each must be refuted with a counter-model that replays on the real code,
otherwise the check reports a checker fault (vacuity / soundness guard, DESIGN 3.5)."""
from .common import *
from .ops import ones_field


class CanaryUpwindIsTwiceDiv(AxisOb):
    name = 'canary/upwind_of_constant_is_2_div_u'
    props = ('C06',)
    grids = ('Grid1D', 'Grid2D')
    canary = True

    def setup(self, w):
        u = w.facevar('u')
        M, ps = parts(builder(adv, 'convectionUpwindTerm', w.grid)(u))
        d, ds = parts(builder(cal, 'divergenceTerm', w.grid)(u))
        return dict(ps=ps, ds=ds, one=ones_field(w))

    def claims(self, w, S, P, a):
        return [('canary', w.eq(w.apply(S['ps'][a], S['one'], P), 2 * w.vec(S['ds'][a], P)))]


class CanaryUpwindIsCentral(AxisOb):
    name = 'canary/upwind_matrix_is_central_matrix'
    props = ('C05',)
    grids = ('Grid1D', 'CylindricalGrid2D')
    canary = True

    def setup(self, w):
        u = w.facevar('u')
        M, ps = parts(builder(adv, 'convectionUpwindTerm', w.grid)(u))
        M2, ps2 = parts(builder(adv, 'convectionTerm', w.grid)(u))
        return dict(ps=ps, ps2=ps2, phi=w.rawcell('phi')._value)

    def claims(self, w, S, P, a):
        return [('canary', w.eq(w.apply(S['ps'][a], S['phi'], P), w.apply(S['ps2'][a], S['phi'], P)))]
