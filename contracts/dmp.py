"""C07: the discrete maximum principle hypotheses on the rows the solver really uses, AFTER eliminating the face-ghost
unknowns with the traced rows of boundaryConditionsTerm (boundary kinds set through the real utility methods
fixedValue / defaultNoFlux / periodic).

For an interior cell P and axis a, the row of S_a = -diffusionTerm_a(D) + convectionUpwindTerm_a(u) (D >= 0) reads
    dg*phi_P + lo*phi_{P-e} + hi*phi_{P+e}.
Next to a boundary the neighbour is a ghost unknown G which the boundary rows tie to interior unknowns and data:
    non-periodic side:  b_G*phi_G + b_Q*phi_P = r            ->  phi_G = gamma*phi_P + delta
    periodic axis:      the two rows of the two ghosts, a 2x2 system in (phi_G0, phi_GN1) over phi_1, phi_N.
Substituting gives the eliminated row  dg'*phi_P + sum_k off'_k*phi_k = sum_s weight_s*datum_s  and the clauses are the
hypotheses of lemmas/FVLemmas.lean dmp_upper / dmp_lower, per axis (they add up over the axes; the transient term adds
alpha/dt > 0 to the diagonal and alpha/dt*phi_old to the right-hand side, the sink beta_P >= 0 to the diagonal):
    (E0) the elimination is well defined (pivot / determinant != 0) and the boundary rows mention no other unknown,
    (E1) every eliminated off-diagonal entry is <= 0,
    (E2) every weight on a Dirichlet datum is >= 0, and the ghost is gamma*phi_P + (1-gamma)*datum (no other data),
    (E3) dg' = sum(-off'_k) + sum(weights) + (div_a u)_P."""
from .common import *
from .bc import SIDES, side_shape, coef_at
from .ops import SignStructure
from fvverif import trace as T

KINDS = ('D', 'N')      # per side: Dirichlet (fixedValue), no-flux (defaultNoFlux)


def _same(w, c, Q):
    if w.symbolic:
        return all(CTX.decide(I(x) == I(y)) for x, y in zip(c, Q))
    return tuple(int(x) for x in c) == tuple(int(y) for y in Q)


def _is(w, x, y):
    return CTX.decide(I(x) == I(y)) if w.symbolic else (int(x) == int(y))


class _Eliminated(SignStructure):
    name = '?'
    props = ('C07',)
    config = ('N', 'N')          # (lower side, upper side) on the axis under elimination, or ('P', 'P')

    def parts(self, w):
        return [a for a in range(w.nd) if not (self.config[0] == 'P' and GRIDS[w.grid]['radial'] and a == 0)]

    def setup(self, w):
        S = super().setup(w)
        S['bcM'], S['bcR'], S['datum'] = {}, {}, {}
        for a in self.parts(w):
            BC = bnd.BoundaryConditions(w.mesh)
            data = {}
            if self.config[0] == 'P':
                getattr(BC, SIDES[a][0]).periodic = True
            else:
                for s in (0, 1):
                    face = getattr(BC, SIDES[a][s])
                    if self.config[s] == 'D':
                        data[s] = w.array('dir%d%d' % (a, s), side_shape(w, a))
                        face.fixedValue(data[s])
                    else:
                        face.defaultNoFlux()
            M, Rv = bnd.boundaryConditionsTerm(BC)
            S['bcM'][a], S['bcR'][a] = M, Rv
            for s, arr in data.items():
                S['datum']['%d%d' % (a, s)] = arr
        return S

    # ---- helpers
    def _bc_row(self, w, S, a, G, cols):
        """coefficients of the boundary row of ghost G on the given columns, right-hand side, 'no other column'"""
        co = [0] * len(cols)
        other = False
        for c, v in w.row(S['bcM'][a], G):
            hit = False
            for j, Q in enumerate(cols):
                if _same(w, c, Q):
                    co[j] = co[j] + v
                    hit = True
                    break
            if not hit:
                other = True
        return co, w.vec(S['bcR'][a], G), other

    def claims(self, w, S, P, a):
        row = self._entries(w, S, P, a)
        lo, hi, dg = row.get(-1, 0), row.get(1, 0), row.get(0, 0)
        div = w.vec(S['dvs'][a], P)
        N = w.N[a]
        at_lo, at_hi = _is(w, P[a], 1), _is(w, P[a], N)
        if not w.symbolic:
            w.scale = 1e3
        tag = AX[a]
        res = []
        flag = (lambda ok: B.const(bool(ok))) if w.symbolic else (lambda ok: bool(ok))
        ne0 = (lambda x: R.of(x) != 0) if w.symbolic else (lambda x: abs(x) > 1e-12)
        offs = []            # [(column, value)] eliminated off-diagonal entries
        weights = []         # [(value, label)]
        diag = dg

        def add_off(col, v):
            if _same(w, col, P):
                return v          # lands on the diagonal
            for j, (c, x) in enumerate(offs):
                if _same(w, c, col):
                    offs[j] = (c, x + v)
                    return 0
            offs.append((col, v))
            return 0
        if not at_lo:
            diag = diag + add_off(shift(P, a, -1), lo)
        if not at_hi:
            diag = diag + add_off(shift(P, a, 1), hi)
        G0, GN = list(P), list(P)
        G0[a], GN[a] = 0, N + 1
        P1, PN = list(P), list(P)
        P1[a], PN[a] = 1, N
        G0, GN, P1, PN = tuple(G0), tuple(GN), tuple(P1), tuple(PN)
        if self.config[0] != 'P':
            for s, at, G, coef in ((0, at_lo, G0, lo), (1, at_hi, GN, hi)):
                if not at:
                    continue
                (bG, bQ), r, other = self._bc_row(w, S, a, G, [G, P])
                res.append(('E0_boundary_row_ties_ghost_to_its_cell_only[%s,%s]' % (tag, SIDES[a][s]), flag(not other)))
                res.append(('E0_pivot_nonzero[%s,%s]' % (tag, SIDES[a][s]), ne0(bG)))
                gamma = -bQ / bG
                delta = r / bG
                if self.config[s] == 'D':
                    datum = coef_at(w, {(a, s, 'c'): S['datum']['%d%d' % (a, s)]}, a, s, 'c', P)
                    res.append(('E2_ghost_is_gamma_phiP_plus_(1-gamma)_datum[%s,%s]' % (tag, SIDES[a][s]), w.eq(delta, (1 - gamma) * datum)))
                else:
                    res.append(('E2_noflux_ghost_equals_its_cell[%s,%s]' % (tag, SIDES[a][s]), w.eq(delta, 0) & w.eq(gamma, 1) if w.symbolic else (w.eq(delta, 0) and w.eq(gamma, 1))))
                wt = -coef * (1 - gamma)
                res.append(('E2_weight_on_datum_nonnegative[%s,%s]' % (tag, SIDES[a][s]), w.le(0, wt)))
                weights.append(wt)
                diag = diag + coef * gamma
        elif at_lo or at_hi:
            cols = [G0, GN, P1, PN]
            (a00, a01, a0p, a0n), r0, o0 = self._bc_row(w, S, a, G0, cols)
            (a10, a11, a1p, a1n), r1, o1 = self._bc_row(w, S, a, GN, cols)
            if _same(w, P1, PN):     # a single cell on this axis: columns 1 and N coincide (first match took both)
                a0n = a1n = 0
            det = a00 * a11 - a01 * a10
            res.append(('E0_periodic_rows_tie_ghosts_to_end_cells_only[%s]' % tag, flag(not o0 and not o1)))
            res.append(('E0_determinant_nonzero[%s]' % tag, ne0(det)))
            res.append(('E2_periodic_rows_carry_no_data[%s]' % tag, (w.eq(r0, 0) & w.eq(r1, 0)) if w.symbolic else (w.eq(r0, 0) and w.eq(r1, 0))))
            # Cramer: [a00 a01; a10 a11] (g0, gN) = (-a0p*p1 - a0n*pN, -a1p*p1 - a1n*pN)
            g0_p1 = (-a0p * a11 + a01 * a1p) / det
            g0_pN = (-a0n * a11 + a01 * a1n) / det
            gN_p1 = (-a00 * a1p + a10 * a0p) / det
            gN_pN = (-a00 * a1n + a10 * a0n) / det
            if at_lo:
                diag = diag + add_off(P1, lo * g0_p1)
                diag = diag + add_off(PN, lo * g0_pN)
            if at_hi:
                diag = diag + add_off(P1, hi * gN_p1)
                diag = diag + add_off(PN, hi * gN_pN)
        for j, (c, v) in enumerate(offs):
            res.append(('E1_eliminated_offdiagonal_nonpositive[%s,#%d]' % (tag, j), w.le(v, 0)))
        tot = 0
        for c, v in offs:
            tot = tot - v
        for wt in weights:
            tot = tot + wt
        res.append(('E3_diagonal_is_minus_offdiagonals_plus_weights_plus_div_u[%s]' % tag, w.eq(diag, tot + div)))
        res.append(('no_other_entries[%s]' % tag, flag('other' not in row)))
        return res


def _mk():
    for lo in KINDS:
        for hi in KINDS:
            cn = 'Eliminated_%s%s' % (lo, hi)
            cls = type(cn, (_Eliminated,), dict(config=(lo, hi), name='diffusion+upwind/eliminated_row_sign_structure{%s%s}' % (lo, hi)))
            cls.__module__ = __name__
            globals()[cn] = cls
    grids = tuple(g for g in ALL if not (GRIDS[g]['radial'] and GRIDS[g]['nd'] == 1))
    cls = type('Eliminated_PP', (_Eliminated,), dict(config=('P', 'P'), grids=grids,
                                                     name='diffusion+upwind/eliminated_row_sign_structure{periodic}'))
    cls.__module__ = __name__
    globals()['Eliminated_PP'] = cls


_mk()
