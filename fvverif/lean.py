"""Lean 4 + Mathlib lemmas (lemmas/FVLemmas.lean): checked with `lean`, result cached by the file's hash in
lemmas/checked.json (the lemmas do not depend on /repo); the thorough tier always re-checks."""
import hashlib
import json
import os
import re
import subprocess
import time

ROOT = os.path.dirname(os.path.dirname(os.path.abspath(__file__)))
LEAN_FILE = os.path.join(ROOT, 'lemmas', 'FVLemmas.lean')
CACHE = os.path.join(ROOT, 'lemmas', 'checked.json')


def file_sha():
    return hashlib.sha256(open(LEAN_FILE, 'rb').read()).hexdigest()


def run_lean(timeout=1800):
    t0 = time.time()
    p = subprocess.run(['lean', LEAN_FILE], capture_output=True, text=True, timeout=timeout, cwd=os.path.dirname(LEAN_FILE))
    out = p.stdout + p.stderr
    errors = [l for l in out.splitlines() if ': error' in l]
    axioms = {}
    for m in re.finditer(r"'(FV\.\w+)' depends on axioms: \[([^\]]*)\]", out):
        axioms[m.group(1).split('.')[1]] = [a.strip() for a in m.group(2).split(',')]
    for m in re.finditer(r"'(FV\.\w+)' does not depend on any axioms", out):
        axioms[m.group(1).split('.')[1]] = []
    ok = p.returncode == 0 and not errors and all('sorryAx' not in v for v in axioms.values())
    return dict(ok=ok, returncode=p.returncode, errors=errors[:5], axioms=axioms, seconds=round(time.time() - t0, 1),
                sha=file_sha(), lean=subprocess.run(['lean', '--version'], capture_output=True, text=True).stdout.strip())


def lemma_status(names, rebuild=False):
    """-> (ok, detail)"""
    sha = file_sha()
    cached = json.load(open(CACHE)) if os.path.exists(CACHE) else None
    if rebuild or cached is None or cached.get('sha') != sha:
        try:
            res = run_lean()
        except Exception as e:      # noqa: BLE001
            return False, 'lean could not be run: %s' % e
        if not rebuild and os.access(os.path.dirname(CACHE), os.W_OK) and not os.environ.get('VERIF_OUT'):
            try:
                json.dump(res, open(CACHE, 'w'), indent=1)
            except OSError:
                pass
        cached = res
    missing = [n for n in names if n not in cached.get('axioms', {})]
    bad = [n for n in names if 'sorryAx' in cached.get('axioms', {}).get(n, [])]
    ok = bool(cached.get('ok')) and not missing and not bad
    return ok, 'sha=%s ok=%s missing=%s sorry=%s lean=%s (%ss)' % (sha[:12], cached.get('ok'), missing, bad, cached.get('lean', '')[:40], cached.get('seconds'))


if __name__ == '__main__':
    r = run_lean()
    json.dump(r, open(CACHE, 'w'), indent=1)
    print(json.dumps(r, indent=1))
