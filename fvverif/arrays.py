"""Symbolic numpy arrays: symbolic shapes, lazily defined elements, eager *snapshot* semantics for operands,
live views, write logs (heap model), C-order "block" structure for ravel/hstack/tile, scatter writes through
invertible (unit-affine) index maps, cell vectors indexed by Lin atoms."""
import itertools
from fractions import Fraction
from .ints import (IExpr, ICond, I, CTX, NeedSplit, OutOfReach, Lin, is_int_like, same, as_icond)
from .reals import R, B, is_number, is_scalar, rmin, rmax, rsign, frac_of_float


def iprod(shape):
    p = IExpr.const(1)
    for s in shape:
        p = p * I(s)
    return p


def is_lit(x, v):
    x = I(x)
    return x.is_const() and x.const_value() == v


def is_unit(x):
    """the dimension is 1: literally, or provably under the current size assumptions (numpy broadcasts it then)"""
    x = I(x)
    if x.is_const():
        return x.const_value() == 1
    return CTX.entails(x == 1)


def dims_equal(a, b):
    a, b = I(a), I(b)
    if a.same(b):
        return True
    return CTX.entails(a == b)


_probe_counter = itertools.count()
SUMMANDS = {}
_MISS = object()


def fresh_syms(n, tag='q'):
    k = next(_probe_counter)
    return [IExpr.sym('%s!%d!%d' % (tag, k, j)) for j in range(n)]


def to_value(x, kind):
    """coerce a python / symbolic scalar to the value domain of an array kind"""
    if kind == 'real':
        return R.of(x)
    if kind == 'int':
        if isinstance(x, (R,)):
            return x
        if isinstance(x, float) and float(x).is_integer():
            return I(int(x))
        if is_int_like(x):
            return I(x)
        return R.of(x)
    if kind == 'bool':
        return x if isinstance(x, (B, bool)) else B.of(x)
    raise AssertionError(kind)


def kind_of_scalar(x):
    if isinstance(x, (B, bool, ICond)):
        return 'bool'
    if isinstance(x, IExpr) or (isinstance(x, int) and not isinstance(x, bool)):
        return 'int'
    try:
        import numpy as _np
        if isinstance(x, _np.integer):
            return 'int'
        if isinstance(x, _np.bool_):
            return 'bool'
    except ImportError:
        pass
    return 'real'


# ------------------------------------------------------------------------------------------------
#  buffer states

class LoopCtx:
    """bookkeeping of one generically executed loop"""

    def __init__(self, it, n):
        self.it = it
        self.itname = next(iter(it.atoms()))
        self.n = n
        self.paths = []          # [(tf, [(buf, offset, value)])]
        self.cur = None
        self.written = {}        # buf id -> buf

    def begin_path(self, tf):
        self.cur = (tf, [])
        self.pushed = 0
        self.dead = False

    def end_path(self):
        for _ in range(self.pushed):
            CTX.pop(1)
        self.pushed = 0
        if not self.dead:
            self.paths.append(self.cur)
        self.cur = None

    def decide_int(self, c):
        """an integer case distinction on the loop variable (e.g. it == 0): decided per path, like a data branch"""
        tf = self.cur[0]
        if tf.pos < len(tf.script):
            d = tf.script[tf.pos]
        else:
            d = True
            tf.script.append(True)
        tf.pos += 1
        cc = c if d else c.neg()
        tf.conds.append(cc)
        CTX.push([cc])
        self.pushed += 1
        if CTX.infeasible():
            self.dead = True
        return d

    def record_write(self, arr, key, value):
        """arr[key] = value inside the body; key must be it + c on a 1-D whole-array view"""
        if arr.ndim != 1 or not arr._view.is_identity_of(arr.buf.shape):
            raise OutOfReach('loop body writes through a view / to an n-d array')
        kk = I(key)
        if not (kk.is_affine() and kk.coeff(self.itname) == 1):
            raise OutOfReach('loop body writes at index %s (not loop variable + constant)' % (kk,))
        off = kk - self.it
        if self.itname in off.atoms():
            raise OutOfReach('loop body writes at index %s' % (kk,))
        if not is_scalar(value):
            raise OutOfReach('loop body writes a non-scalar')
        self.cur[1].append((arr.buf, off, to_value(value, arr.kind)))
        self.written[arr.buf.id] = arr.buf

    def commit(self):
        from .reals import subst_ints
        itname, n = self.itname, self.n
        bybuf = {}
        for tf, writes in self.paths:
            conds = list(tf.conds)
            seen = set()
            for buf, off, val in writes:
                if buf.id in seen:
                    raise OutOfReach('loop body writes the same array twice in one iteration')
                seen.add(buf.id)
                bybuf.setdefault(buf.id, (buf, off, []))
                if not I(bybuf[buf.id][1]).same(off):
                    raise OutOfReach('loop body writes at different offsets on different paths')
                bybuf[buf.id][2].append((conds, val))
        for bid, (buf, off, alts) in bybuf.items():
            if len(alts) != len(self.paths):
                raise OutOfReach('loop body does not write the array on every path')
            # put a path without integer conditions last (it becomes the default of the ite chain)
            alts.sort(key=lambda cv: 0 if any(isinstance(cc, ICond) for cc in cv[0]) else 1)

            def cond_fn(bufidx, off=off):
                t = I(bufidx[0]) - off
                if CTX.decide(t >= 0) and CTX.decide(t < n):
                    return True, None, t
                return False, None, None

            def val_fn(bufidx, t, alts=alts):
                m = {itname: t}
                res = None
                for conds, val in reversed(alts):
                    v = subst_ints(R.of(val), m) if isinstance(val, (R, B)) else R.of(I(val).subst(m))
                    if res is None and not any(isinstance(cc, ICond) for cc in conds):
                        res = v
                        continue
                    c = B.const(True)
                    skip = False
                    for cc in conds:
                        if isinstance(cc, ICond):
                            if not CTX.decide(cc.subst(m)):
                                skip = True
                                break
                        else:
                            c = c & subst_ints(cc, m)
                    if not skip:
                        res = R.ite(c, v, res)
                if res is None:
                    raise OutOfReach('no loop path applies')
                return res
            buf.write(cond_fn, val_fn, 'loop-map')


class FnState:
    __slots__ = ('fn', 'uid')
    _n = itertools.count()

    def __init__(self, fn):
        self.fn = fn
        self.uid = next(FnState._n)

    def get(self, idx):
        k = (self.uid, tuple(i.key() if isinstance(i, IExpr) else i for i in idx))
        m = CTX.memo
        v = m.get(k, _MISS)
        if v is not _MISS:
            return v
        v = self.fn(idx)
        m[k] = v
        return v


class StoreState:
    """parent state overwritten where cond holds.  cond_fn(idx) -> (ok, B-or-None, payload):
       ok False: not written; ok True with B None: written unconditionally; with B: written where the real
       condition holds."""
    __slots__ = ('parent', 'cond_fn', 'val_fn', 'uid')

    def __init__(self, parent, cond_fn, val_fn):
        self.parent = parent
        self.cond_fn = cond_fn
        self.val_fn = val_fn
        self.uid = next(FnState._n)

    def get(self, idx):
        k = (self.uid, tuple(i.key() if isinstance(i, IExpr) else i for i in idx))
        m = CTX.memo
        v = m.get(k, _MISS)
        if v is not _MISS:
            return v
        ok, mask, payload = self.cond_fn(idx)
        if not ok:
            v = self.parent.get(idx)
        else:
            nv = self.val_fn(idx, payload)
            if mask is None:
                v = nv
            else:
                old = self.parent.get(idx)
                if isinstance(nv, (IExpr, int)) and isinstance(old, (IExpr, int)) and not isinstance(nv, bool):
                    if I(nv).same(I(old)):
                        v = nv
                    else:
                        v = R.ite(mask, R.of(nv), R.of(old))
                elif isinstance(nv, (B, bool)) and isinstance(old, (B, bool)):
                    v = (mask & B.of(nv)) | (~mask & B.of(old))
                else:
                    v = R.ite(mask, R.of(nv), R.of(old))
        m[k] = v
        return v


class Buffer:
    _n = itertools.count(1)

    def __init__(self, shape, state, kind, origin='alloc'):
        self.id = next(Buffer._n)
        self.shape = tuple(I(s) for s in shape)
        self.state = state
        self.kind = kind
        self.origin = origin
        self.segments = []     # (start, length, Block) appended by writes through affine-range keys (1-D only)
        self.nwrites = 0
        CTX.events.append(('alloc', self.id, origin))

    def write(self, cond_fn, val_fn, how='setitem'):
        self.state = StoreState(self.state, cond_fn, val_fn)
        self.nwrites += 1
        CTX.writes.append((self.id, how))


# ------------------------------------------------------------------------------------------------
#  views

class View:
    """axes[a] for every buffer axis: ('fix', c) or ('sl', start, raxis); shape = result shape"""
    __slots__ = ('axes', 'shape')

    def __init__(self, axes, shape):
        self.axes = tuple(axes)
        self.shape = tuple(I(s) for s in shape)

    @staticmethod
    def identity(shape):
        return View([('sl', I(0), j) for j in range(len(shape))], shape)

    def is_identity_of(self, bshape):
        if len(self.shape) != len(bshape):
            return False
        for a, ax in enumerate(self.axes):
            if ax[0] != 'sl' or ax[2] != a or not is_lit(ax[1], 0) or not I(self.shape[a]).same(I(bshape[a])):
                return False
        return True

    def fwd(self, idx):
        out = []
        for ax in self.axes:
            if ax[0] == 'fix':
                out.append(ax[1])
            else:
                out.append(ax[1] + I(idx[ax[2]]))
        return tuple(out)

    def match(self, bufidx):
        """-> (in_region: bool, view idx) ; may raise NeedSplit"""
        idx = [I(0)] * len(self.shape)
        for a, ax in enumerate(self.axes):
            b = I(bufidx[a])
            if ax[0] == 'fix':
                if not CTX.decide(b == ax[1]):
                    return False, None
            else:
                lin = b.as_lin()
                if lin is not None:
                    # a cell index addressing a whole 1-D cell vector: always inside
                    if is_lit(ax[1], 0) and dims_equal(self.shape[ax[2]], iprod(lin.shape)):
                        idx[ax[2]] = b
                        continue
                    raise OutOfReach('cell index %s against a partial view of a cell vector' % (b,))
                rel = b - ax[1]
                if not CTX.decide(rel >= 0):
                    return False, None
                if not CTX.decide(rel < self.shape[ax[2]]):
                    return False, None
                idx[ax[2]] = rel
        return True, tuple(idx)

    def feeder(self):
        """raxis -> buffer axis"""
        return {ax[2]: a for a, ax in enumerate(self.axes) if ax[0] == 'sl'}

    def index(self, key):
        """basic indexing.  returns View (possibly 0-d)"""
        if not isinstance(key, tuple):
            key = (key,)
        nd = len(self.shape)
        n_consume = sum(1 for k in key if k is not None and k is not Ellipsis)
        if n_consume > nd:
            raise IndexError('too many indices for array: array is %d-dimensional, but %d were indexed' % (nd, n_consume))
        if any(k is Ellipsis for k in key):
            pos = [i for i, k in enumerate(key) if k is Ellipsis]
            if len(pos) > 1:
                raise IndexError("an index can only have a single ellipsis ('...')")
            p = pos[0]
            key = key[:p] + (slice(None),) * (nd - n_consume) + key[p + 1:]
        else:
            key = key + (slice(None),) * (nd - n_consume)
        feeder = self.feeder()
        axes = list(self.axes)
        newshape = []
        j = 0  # current result axis of self
        for k in key:
            if k is None:
                newshape.append(I(1))
                continue
            dim = self.shape[j]
            if isinstance(k, slice):
                if k.step is not None and not (is_int_like(k.step) and is_lit(k.step, 1)):
                    raise OutOfReach('slice step %r' % (k.step,))
                s = norm_bound(k.start, dim, 0)
                e = norm_bound(k.stop, dim, dim)
                check_slice(s, e, dim)
                rj = len(newshape)
                newshape.append(e - s)
                if j in feeder:
                    a = feeder[j]
                    axes[a] = ('sl', axes[a][1] + s, rj)
            elif is_int_like(k):
                c = I(k)
                if c.is_const() and c.const_value() < 0:
                    c = dim + c
                check_index(c, dim)
                if j in feeder:
                    a = feeder[j]
                    axes[a] = ('fix', axes[a][1] + c)
            else:
                raise OutOfReach('unsupported basic index %r' % (k,))
            j += 1
        return View(axes, newshape)


def norm_bound(b, dim, default):
    if b is None:
        return I(default)
    if isinstance(b, R) and b.is_const() and b.cval().denominator == 1:
        b = int(b.cval())
    b = I(b)
    if b.is_const() and b.const_value() < 0:
        return I(dim) + b
    return b


def check_slice(s, e, dim):
    for c, what in ((s >= 0, 'start>=0'), (e >= s, 'stop>=start'), (e <= dim, 'stop<=dim')):
        if not CTX.entails(c):
            if CTX.entails(c.neg()):
                raise OutOfReach('slice bound violated (%s): [%s:%s] of %s; numpy would clip silently' % (what, s, e, dim))
            raise NeedSplit(c)


def check_index(c, dim):
    for cond in (c >= 0, c < dim):
        if not CTX.entails(cond):
            if CTX.entails(cond.neg()):
                raise IndexError('index %s is out of bounds for axis with size %s' % (c, dim))
            raise NeedSplit(cond)


# ------------------------------------------------------------------------------------------------
#  blocks (pieces of a flattened 1-D array)

class Block:
    __slots__ = ('shape', 'fn', 'kind', 'scalar')

    def __init__(self, shape, fn, kind, scalar=False):
        self.shape = tuple(I(s) for s in shape)   # for scalar blocks: (n,) = flat length it is broadcast to
        self.fn = fn                              # fn(idx tuple) -> value
        self.kind = kind
        self.scalar = scalar

    @property
    def size(self):
        return iprod(self.shape)

    def squeezed(self):
        if self.scalar:
            return self
        keep = [j for j, s in enumerate(self.shape) if not is_lit(s, 1)]
        shape = tuple(self.shape[j] for j in keep)
        f = self.fn
        nd = len(self.shape)

        def fn(idx, keep=keep, nd=nd, f=f):
            full = [I(0)] * nd
            for t, j in enumerate(keep):
                full[j] = idx[t]
            return f(tuple(full))
        return Block(shape, fn, self.kind, self.scalar)


def map_blocks(op, kind, *blocklists):
    """elementwise op on equally structured block lists (scalars allowed)"""
    n = max(len(bl) for bl in blocklists if bl is not None and not isinstance(bl, _ScalarBL))
    out = []
    for t in range(n):
        bs = []
        ref = None
        for bl in blocklists:
            if isinstance(bl, _ScalarBL):
                bs.append(bl.value)
            else:
                if len(bl) != n:
                    raise OutOfReach('block structures differ (%d vs %d blocks)' % (len(bl), n))
                b = bl[t].squeezed()
                bs.append(b)
                if ref is None and not b.scalar:
                    ref = b
        if ref is None:
            ref = next(b for b in bs if isinstance(b, Block))
        for b in bs:
            if isinstance(b, Block) and not b.scalar:
                if len(b.shape) != len(ref.shape) or not all(dims_equal(x, y) for x, y in zip(b.shape, ref.shape)):
                    raise OutOfReach('block shapes differ: %s vs %s' % (b.shape, ref.shape))

        def fn(idx, bs=bs):
            vals = [(b.fn(idx if not b.scalar else ()) if isinstance(b, Block) else b) for b in bs]
            return op(*vals)
        out.append(Block(ref.shape, fn, kind))
    return out


class _ScalarBL:
    def __init__(self, value):
        self.value = value


# ------------------------------------------------------------------------------------------------
#  the array class

class SymNDArray:
    """model of numpy.ndarray"""
    __array_priority__ = 100.0

    def __init__(self, *a, **k):
        pass

    # ---- construction
    @classmethod
    def _make(cls, buf, view, base=None, blocks=None, finalize_from=None):
        obj = object.__new__(cls)
        obj.buf = buf
        obj._view = view
        obj.base = base
        obj.blocks = blocks
        obj.affine = None
        obj.cellshape = None
        if cls is not SymNDArray:
            obj.__array_finalize__(finalize_from)
        return obj

    @staticmethod
    def from_fn(shape, fn, kind, origin='alloc', blocks=None):
        shape = tuple(I(s) for s in shape)
        buf = Buffer(shape, FnState(fn), kind, origin)
        return SymNDArray._make(buf, View.identity(shape), blocks=blocks)

    @staticmethod
    def full(shape, value, kind=None, origin='alloc'):
        if kind is None:
            kind = kind_of_scalar(value)
        v = to_value(value, kind)
        return SymNDArray.from_fn(shape, lambda idx: v, kind, origin)

    def __array_finalize__(self, obj):
        return None

    # ---- basic attributes
    @property
    def shape(self):
        return self._view.shape

    @property
    def ndim(self):
        return len(self._view.shape)

    @property
    def size(self):
        s = iprod(self.shape)
        return s.const_value() if s.is_const() else s

    @property
    def kind(self):
        return self.buf.kind

    @property
    def dtype(self):
        return {'real': 'float64', 'int': 'int64', 'bool': 'bool'}[self.kind]

    @property
    def T(self):
        if self.ndim < 2:
            return self
        if self.ndim == 2:
            return self.transpose()
        raise OutOfReach('.T of %d-d array' % self.ndim)

    def transpose(self, *axes):
        nd = self.ndim
        if not axes:
            perm = tuple(reversed(range(nd)))
        elif len(axes) == 1 and isinstance(axes[0], (tuple, list)):
            perm = tuple(axes[0])
        else:
            perm = tuple(axes)
        v = self._view
        inv = {old: new for new, old in enumerate(perm)}
        axes2 = [(ax if ax[0] == 'fix' else ('sl', ax[1], inv[ax[2]])) for ax in v.axes]
        shape2 = [v.shape[perm[j]] for j in range(nd)]
        return type(self)._make(self.buf, View(axes2, shape2), base=self._base_for_view(), finalize_from=self)

    def __len__(self):
        if self.ndim == 0:
            raise TypeError('len() of unsized object')
        n = I(self.shape[0])
        if n.is_const():
            return n.const_value()
        raise OutOfReach('len() of an array with symbolic length %s' % n)

    def __iter__(self):
        n0 = I(self.shape[0]) if self.ndim >= 1 else None
        if n0 is not None and not n0.is_const() and self.ndim == 1:
            return self._generic_iteration()
        n = len(self)
        return (self[i] for i in range(n))

    def _generic_iteration(self):
        """`for x in arr` with a symbolic trip count: the body is executed on ONE generic iteration `it`
        (0 <= it < n), once per data-dependent path through the body; the writes `buf[it + c] = v` it performs are
        turned into parametric stores  (for all it)  merged over the paths.  Side conditions (checked): the body
        writes only at index it+c and never reads a buffer it writes (independent-map loops, DESIGN 3.4)."""
        from .ints import TraceFork
        n = I(self.shape[0])
        k = next(_probe_counter)
        it = IExpr.sym('it!%d' % k)
        loop = LoopCtx(it, n)
        pending = [[]]
        nlev = CTX.push([it >= 0, it < n])
        try:
            while pending:
                script = pending.pop()
                tf = TraceFork(script)
                old_tf, old_loop = CTX.trace_fork, CTX.loop
                CTX.trace_fork, CTX.loop = tf, loop
                loop.begin_path(tf)
                try:
                    yield self.at((it,))
                finally:
                    CTX.trace_fork, CTX.loop = old_tf, old_loop
                loop.end_path()
                for i in range(tf.fresh_from, len(tf.script)):
                    pending.append(tf.script[:i] + [False])
                if len(loop.paths) > 64:
                    raise OutOfReach('more than 64 paths through a loop body')
        finally:
            CTX.pop(nlev)
        loop.commit()

    def __bool__(self):
        s = iprod(self.shape)
        if s.is_const() and s.const_value() == 1:
            return bool(self.item())
        raise ValueError('The truth value of an array with more than one element is ambiguous. Use a.any() or a.all()')

    # ---- element access
    def at(self, idx):
        """live element read (tuple of ints / IExpr)"""
        idx = tuple(I(i) for i in idx)
        if CTX.loop is not None and self.buf.id in CTX.loop.written:
            raise OutOfReach('loop body reads an array that the loop writes (not an independent map)')
        if self.blocks is not None and self.buf.state is None:
            return self._blocks_at(idx)
        return self.buf.state.get(self._view.fwd(idx))

    def snap(self):
        """function idx -> value frozen at the current buffer state"""
        if self.blocks is not None and self.buf.state is None:
            blocks = self.blocks
            return lambda idx: _blocks_at(blocks, idx)
        st = self.buf.state
        fwd = self._view.fwd
        return lambda idx: st.get(fwd(tuple(I(i) for i in idx)))

    def _blocks_at(self, idx):
        return _blocks_at(self.blocks, idx)

    def item(self, *args):
        if args:
            return self[args if len(args) > 1 else args[0]]
        s = iprod(self.shape)
        if not (s.is_const() and s.const_value() == 1):
            if CTX.entails(s == 1):
                pass
            else:
                raise ValueError('can only convert an array of size 1 to a Python scalar')
        return self.at((0,) * self.ndim)

    def _base_for_view(self):
        # numpy: a view of a view refers to the ultimate owner, except that a base of a different
        # (sub)class stops the collapse (see DESIGN Appendix C.7)
        return self if self.base is None or type(self.base) is not type(self) else self.base

    # ---- indexing
    def __getitem__(self, key):
        k = key if isinstance(key, tuple) else (key,)
        if any(isinstance(x, (SymNDArray, list)) for x in k):
            return self._adv_get(k)
        if self.blocks is not None and self.ndim == 1:
            r = self._blocks_getitem(k)
            if r is not None:
                return r
        if self.ndim == 1 and self.buf.segments and len(k) == 1 and isinstance(k[0], slice) \
                and k[0].step is None and self._view.is_identity_of(self.buf.shape) \
                and is_lit(norm_bound(k[0].start, self.shape[0], 0), 0):
            r = self._segments_prefix(norm_bound(k[0].stop, self.shape[0], self.shape[0]))
            if r is not None:
                return r
        v = self._view.index(key)
        if len(v.shape) == 0:
            try:
                return self.buf.state.get(v.fwd(())) if self.buf.state is not None else self._blocks_at(v.fwd(()))
            except NeedSplit:
                # which element this is depends on an undecided size relation (e.g. x[-1] after x[0] = ...):
                # stay lazy with a 0-d view, exactly the value numpy's scalar would have
                if self.buf.state is None:
                    raise
                return SymNDArray._make(self.buf, v, base=self._base_for_view())
        out = type(self)._make(self.buf, v, base=self._base_for_view(), finalize_from=self)
        if self.affine is not None and self.ndim == 1 and out.ndim >= 1:
            out.affine = _affine_after_index(self, k, out)
        return out

    def _blocks_getitem(self, k):
        if len(k) == 1 and isinstance(k[0], slice) and k[0].step is None:
            total = I(self.shape[0])
            s = norm_bound(k[0].start, total, 0)
            e = norm_bound(k[0].stop, total, total)
            if is_lit(s, 0):
                if e.same(total) or CTX.entails(e == total):
                    return self
                if self.buf.state is None:
                    acc = IExpr.const(0)
                    for n, b in enumerate(self.blocks):
                        acc = acc + b.size
                        if e.same(acc) or CTX.entails(e == acc):
                            return make_blocks_array(self.blocks[:n + 1])
        if self.buf.state is None and any(len(b.shape) > 1 for b in self.blocks):
            if len(k) == 1 and is_int_like(k[0]):
                return self._blocks_at((norm_bound(k[0], self.shape[0], 0),))
            raise OutOfReach('indexing %r of a raveled multi-dimensional array' % (k,))
        return None

    def _segments_prefix(self, e):
        """the first e entries of an array filled segment by segment through affine-range keys"""
        acc = IExpr.const(0)
        blocks = []
        for start, n, blk in self.buf.segments:
            if not dims_equal(start, acc):
                return None
            blocks.append(blk)
            acc = acc + n
            if dims_equal(acc, e):
                return make_blocks_array(blocks)
        return None

    def _adv_get(self, k):
        items, bshape = _adv_items(self, k)
        src = self.snap()

        def fn(idx, items=items):
            return src(tuple(it(idx) for it in items))
        if len(bshape) == 0:
            return fn(())
        out = SymNDArray.from_fn(bshape, fn, self.kind, origin='gather')
        return out

    def __setitem__(self, key, value):
        k = key if isinstance(key, tuple) else (key,)
        loop = CTX.loop
        if loop is not None:
            if len(k) == 1 and is_int_like(k[0]) and loop.itname in I(k[0]).atoms():
                return loop.record_write(self, k[0], value)
            raise OutOfReach('array write inside a generically executed loop body that is not x[loop variable + c] = scalar')
        if len(k) == 1 and isinstance(k[0], SymNDArray) and k[0].kind == 'bool':
            return self._mask_set(k[0], value)
        if any(isinstance(x, (SymNDArray, list)) for x in k):
            return self._adv_set(k, value)
        v = self._view.index(key)
        self._write_view(v, value, how='setitem')

    def _write_view(self, v, value, how):
        kind = self.kind
        vs = tuple(v.shape)
        if isinstance(value, SymNDArray):
            vshape = value.shape
            # numpy allows extra leading length-1 axes on the value
            extra = len(vshape) - len(vs)
            if extra > 0:
                if not all(is_unit(s) for s in vshape[:extra]):
                    raise ValueError('could not broadcast input array from shape %s into shape %s' % (vshape, vs))
            snapv = value.snap()
            off = max(extra, 0)
            vshape_t = vshape[off:]
            pad = len(vs) - len(vshape_t)
            for j, s in enumerate(vshape_t):
                if not is_unit(s) and not dims_equal(s, vs[pad + j]):
                    raise ValueError('could not broadcast input array from shape %s into shape %s' % (vshape, vs))

            def val_fn(bufidx, vidx, snapv=snapv, vshape=vshape, off=off, pad=pad):
                src = [I(0)] * len(vshape)
                for j in range(off, len(vshape)):
                    if not is_unit(vshape[j]):
                        src[j] = vidx[pad + j - off]
                return to_value(snapv(tuple(src)), kind)
        elif is_scalar(value):
            cv = to_value(value, kind)

            def val_fn(bufidx, vidx, cv=cv):
                return cv
        else:
            raise OutOfReach('assignment of %r to an array' % (type(value),))

        def cond_fn(bufidx, v=v):
            ok, vidx = v.match(bufidx)
            return ok, None, vidx
        self.buf.write(cond_fn, val_fn, how)
        self._after_write()

    def _after_write(self):
        pass

    def _mask_set(self, mask, value):
        if not (is_scalar(value)):
            raise OutOfReach('boolean-mask assignment of a non-scalar')
        if mask.ndim != self.ndim or not all(dims_equal(a, b) for a, b in zip(mask.shape, self.shape)):
            raise IndexError('boolean index did not match indexed array')
        msnap = mask.snap()
        cv = to_value(value, self.kind)
        v = self._view

        def cond_fn(bufidx):
            ok, vidx = v.match(bufidx)
            if not ok:
                return False, None, None
            m = msnap(vidx)
            if isinstance(m, bool):
                return m, None, vidx
            m = B.of(m)
            if m.node[0] == 'b':
                return m.node[1], None, vidx
            if m.node[0] == 'ic':
                return CTX.decide(m.node[1].c), None, vidx
            return True, m, vidx
        self.buf.write(cond_fn, lambda bufidx, vidx: cv, 'setitem-mask')
        self._after_write()

    def _adv_set(self, k, value):
        v = self._view
        key0 = k[0] if len(k) == 1 else None
        if self.ndim == 1 and isinstance(key0, SymNDArray) and key0.blocks is not None:
            # key with block structure (raveled cell-number arrays, hstack of pieces)
            keyblocks = [Block(b.shape, (lambda p, b=b: v.fwd((I(b.fn(p if not b.scalar else ())),))), 'int')
                         for b in key0.blocks]
            bshape = None
        elif self.ndim == 1 and isinstance(key0, SymNDArray) and key0.ndim == 1 and key0.affine is None \
                and _small_const(key0.shape):
            # a short enumerated index list (e.g. corner cells): one scalar key per element
            n = I(key0.shape[0]).const_value()
            vals = [I(key0.at((j,))) for j in range(n)]
            keyblocks = [Block((), (lambda p, c=c: v.fwd((c,))), 'int') for c in vals]
            bshape = None
            if isinstance(value, SymNDArray):
                value = make_blocks_array([Block((), (lambda p, j=j, sn=value.snap(), nd=value.ndim:
                                                      sn((I(j),) if nd == 1 else ())), value.kind) for j in range(n)])
        else:
            items, bshape = _adv_items(self, k)
            keyblocks = [Block(bshape, (lambda p: v.fwd(tuple(it(p) for it in items))), 'int')]
        affkey = (bshape is not None and self.ndim == 1 and isinstance(key0, SymNDArray)
                  and key0.affine is not None and key0.ndim == 1 and v.is_identity_of(self.buf.shape))
        if affkey and isinstance(value, SymNDArray) and value.blocks is not None and \
                (len(value.blocks) > 1 or len(value.blocks[0].squeezed().shape) > 1):
            # pieces written into consecutive segments: kept structurally; multi-dimensional pieces cannot be read
            # element by element through a flat index
            total = IExpr.const(0)
            for blk in value.blocks:
                total = total + blk.size
            if not dims_equal(total, iprod(bshape)):
                raise ValueError('shape mismatch: value array could not be broadcast to indexing result')
            start = key0.affine
            kind = self.kind
            for blk in value.blocks:
                n = blk.size
                self.buf.segments.append((start, n, blk))
                flat = len(blk.squeezed().shape) <= 1
                sq = blk.squeezed()

                def cond_fn(bufidx, start=start, n=n):
                    t = I(bufidx[0]) - start
                    if CTX.decide(t >= 0) and CTX.decide(t < n):
                        return True, None, t
                    return False, None, None

                def val_fn(bufidx, t, sq=sq, flat=flat, kind=kind):
                    if not flat:
                        raise OutOfReach('element read inside a raveled multi-dimensional segment')
                    return to_value(sq.fn(() if (sq.scalar or len(sq.shape) == 0) else (t,)), kind)
                self.buf.write(cond_fn, val_fn, 'setitem-adv')
                start = start + n
            self._after_write()
            return
        vblocks = _value_blocks(value, keyblocks, self.kind)
        if affkey:
            self.buf.segments.append((key0.affine, iprod(bshape), vblocks[0]))
        _scatter_write(self.buf, keyblocks, vblocks, self.kind)
        self._after_write()

    # ---- shape manipulation
    def ravel(self):
        if self.ndim == 1:
            return self
        if self.ndim == 0:
            return self.reshape(1)
        blk = Block(self.shape, self.snap(), self.kind)
        return make_blocks_array([blk])

    def flatten(self):
        if self.ndim == 1:
            return self.copy()
        return self.ravel()

    def reshape(self, *shape):
        if len(shape) == 1 and isinstance(shape[0], (tuple, list, SymNDArray)):
            shape = tuple(shape[0])
        shape = tuple(I(_unwrap_int(s)) for s in shape)
        return reshape(self, shape)

    def copy(self):
        if self.blocks is not None and self.buf.state is None:
            return self
        out = SymNDArray.from_fn(self.shape, self.snap(), self.kind, origin='copy', blocks=self.blocks)
        out.affine = self.affine
        return out

    def __copy__(self):
        return self.copy()

    def __deepcopy__(self, memo):
        # ndarray.__deepcopy__: an owning array of the same class; __array_finalize__ sees the original
        if self.blocks is not None and self.buf.state is None:
            buf = Buffer(self.shape, None, self.kind, origin='deepcopy')
        else:
            buf = Buffer(self.shape, FnState(self.snap()), self.kind, origin='deepcopy')
        out = type(self)._make(buf, View.identity(self.shape), base=None, blocks=self.blocks, finalize_from=self)
        out.affine = self.affine
        if hasattr(self, 'elements'):
            out.elements = self.elements
        return out

    def view(self, cls=None):
        cls = cls or type(self)
        out = cls._make(self.buf, self._view, base=self._base_for_view(), blocks=self.blocks, finalize_from=self)
        out.affine = self.affine
        return out

    def astype(self, t):
        return self.copy()

    def fill(self, value):
        self._write_view(self._view, value, how='fill')

    # ---- reductions
    def all(self):
        return reduce_all(self)

    def any(self):
        return reduce_any(self)

    def sum(self):
        return reduce_sum(self)

    def max(self):
        return reduce_minmax(self, 'max')

    def min(self):
        return reduce_minmax(self, 'min')

    # ---- arithmetic
    def _bin(self, o, op, rev=False, kind=None):
        if isinstance(o, SymNDArray) or is_scalar(o):
            return elementwise(op, (o, self) if rev else (self, o), kind)
        return NotImplemented

    def __add__(self, o):
        return self._bin(o, _op_add)

    def __radd__(self, o):
        return self._bin(o, _op_add, True)

    def __sub__(self, o):
        return self._bin(o, _op_sub)

    def __rsub__(self, o):
        return self._bin(o, _op_sub, True)

    def __mul__(self, o):
        return self._bin(o, _op_mul)

    def __rmul__(self, o):
        return self._bin(o, _op_mul, True)

    def __truediv__(self, o):
        return self._bin(o, _op_div, kind='real')

    def __rtruediv__(self, o):
        return self._bin(o, _op_div, True, kind='real')

    def __pow__(self, o):
        return self._bin(o, _op_pow)

    def __rpow__(self, o):
        return self._bin(o, _op_pow, True)

    def __neg__(self):
        return elementwise(lambda a: -_num(a), (self,))

    def __pos__(self):
        return self.copy()

    def __abs__(self):
        return elementwise(_op_abs, (self,))

    def __lt__(self, o):
        return self._bin(o, lambda a, b: _cmp('<', a, b), kind='bool')

    def __le__(self, o):
        return self._bin(o, lambda a, b: _cmp('<=', a, b), kind='bool')

    def __gt__(self, o):
        return self._bin(o, lambda a, b: _cmp('>', a, b), kind='bool')

    def __ge__(self, o):
        return self._bin(o, lambda a, b: _cmp('>=', a, b), kind='bool')

    def __eq__(self, o):
        return self._bin(o, lambda a, b: _cmp('==', a, b), kind='bool')

    def __ne__(self, o):
        return self._bin(o, lambda a, b: _cmp('!=', a, b), kind='bool')

    __hash__ = None

    def __and__(self, o):
        return self._bin(o, lambda a, b: _tobool(a) & _tobool(b), kind='bool')

    def __or__(self, o):
        return self._bin(o, lambda a, b: _tobool(a) | _tobool(b), kind='bool')

    def __invert__(self):
        return elementwise(lambda a: ~_tobool(a), (self,), 'bool')

    # in-place operators write without __setitem__ (they bypass TrackedArray's tracking, Appendix C.9)
    def _inplace(self, o, op):
        res = self._bin(o, op)
        if res is NotImplemented:
            return NotImplemented
        if res.ndim != self.ndim:
            raise ValueError('non-broadcastable output operand')
        self._write_view(self._view, res, how='inplace-op')
        return self

    def __iadd__(self, o):
        return self._inplace(o, _op_add)

    def __isub__(self, o):
        return self._inplace(o, _op_sub)

    def __imul__(self, o):
        return self._inplace(o, _op_mul)

    def __itruediv__(self, o):
        return self._inplace(o, _op_div)

    def __repr__(self):
        return '<%s kind=%s shape=(%s) buf=%d>' % (type(self).__name__, self.kind,
                                                  ','.join(map(str, self.shape)), self.buf.id)


def _unwrap_int(s):
    if isinstance(s, R) and s.is_const() and s.cval().denominator == 1:
        return int(s.cval())
    return s


def _num(a):
    if isinstance(a, (B, bool, ICond)):
        return R.of(a)
    return a


def _tobool(a):
    if isinstance(a, (B, bool)):
        return a if isinstance(a, B) else B.const(a)
    return B.of(a)


def _op_add(a, b):
    if isinstance(a, (B, bool, ICond)) and isinstance(b, (B, bool, ICond)):
        return R.of(a) + R.of(b)
    return _num(a) + _num(b)


def _op_sub(a, b):
    return _num(a) - _num(b)


def _op_mul(a, b):
    if isinstance(a, (B, ICond)) and isinstance(b, (B, ICond)):
        return B.of(a) & B.of(b)
    if isinstance(a, (B, ICond)):
        return R.of(b) * B.of(a)
    if isinstance(b, (B, ICond)):
        return R.of(a) * B.of(b)
    return a * b


def _op_div(a, b):
    return R.of(_num(a)) / R.of(_num(b))


def _op_pow(a, b):
    a, b = _num(a), _num(b)
    if isinstance(a, IExpr) and isinstance(b, (int, IExpr)):
        r = a.__pow__(b)
        if r is not NotImplemented:
            return r
    if isinstance(a, (int, Fraction, float)) and not isinstance(b, (R, IExpr)):
        return R.const(a) ** b
    return R.of(a) ** b


def _op_abs(a):
    a = _num(a)
    if isinstance(a, IExpr):
        if a.is_const():
            return I(abs(a.const_value()))
        a = R.of(a)
    return abs(R.of(a))


def _cmp(op, a, b):
    a, b = _num(a), _num(b)
    if isinstance(a, (IExpr, int)) and isinstance(b, (IExpr, int)) and not isinstance(a, bool) and not isinstance(b, bool):
        a, b = I(a), I(b)
        c = {'<': a < b, '<=': a <= b, '>': a > b, '>=': a >= b, '==': a == b, '!=': a != b}[op]
        return B.icond(c)
    return B.cmp(op, R.of(a), R.of(b))


# ------------------------------------------------------------------------------------------------
#  helpers: broadcasting, elementwise, blocks

def as_array_or_scalar(x):
    if isinstance(x, SymNDArray) or is_scalar(x):
        return x
    if isinstance(x, (list, tuple)):
        return array_from_list(x)
    raise OutOfReach('cannot use %r as an array operand' % (type(x),))


def broadcast_shapes(shapes):
    nd = max(len(s) for s in shapes)
    out = []
    for j in range(nd):
        dim = None
        unit = None
        for s in shapes:
            k = j - (nd - len(s))
            if k < 0:
                continue
            d = s[k]
            if is_unit(d):
                if unit is None or (I(unit).is_const() and not I(d).is_const()):
                    unit = d          # keep the symbolic name of a size that merely happens to be 1 here
                continue
            if dim is None:
                dim = d
            elif not dims_equal(dim, d):
                raise ValueError('operands could not be broadcast together with shapes %s' %
                                 ' '.join('(%s)' % ','.join(map(str, s)) for s in shapes))
        out.append(I(dim) if dim is not None else (I(unit) if unit is not None else I(1)))
    return tuple(out)


def bcast_getter(snap, shape, nd):
    """getter over the broadcast result index for an operand of `shape`"""
    off = nd - len(shape)
    lit1 = [is_unit(s) for s in shape]

    def get(idx, snap=snap, off=off, lit1=lit1):
        return snap(tuple(I(0) if lit1[j] else idx[off + j] for j in range(len(lit1))))
    return get


def result_kind(op_kind, operands):
    if op_kind is not None:
        return op_kind
    kinds = [(o.kind if isinstance(o, SymNDArray) else kind_of_scalar(o)) for o in operands]
    if 'real' in kinds:
        return 'real'
    if 'int' in kinds:
        return 'int'
    return 'bool'


def elementwise(op, operands, kind=None):
    operands = [as_array_or_scalar(o) for o in operands]
    arrs = [o for o in operands if isinstance(o, SymNDArray)]
    if not arrs:
        return op(*operands)
    kind = result_kind(kind, operands)
    # block-structured 1-D operands (ravel / hstack results)
    if any(a.blocks is not None and a.buf.state is None for a in arrs):
        bls = []
        for o in operands:
            if isinstance(o, SymNDArray):
                bls.append(blocks_of(o))
            else:
                bls.append(_ScalarBL(o))
        return make_blocks_array(map_blocks(op, kind, *bls))
    shape = broadcast_shapes([a.shape for a in arrs])
    nd = len(shape)
    getters = []
    for o in operands:
        if isinstance(o, SymNDArray):
            getters.append(bcast_getter(o.snap(), o.shape, nd))
        else:
            getters.append(None)
    consts = operands

    def fn(idx):
        vals = [(g(idx) if g is not None else c) for g, c in zip(getters, consts)]
        return op(*vals)
    out = SymNDArray.from_fn(shape, fn, kind, origin='ufunc')
    sub = next((a for a in arrs if type(a) is not SymNDArray), None)
    if sub is not None:
        # numpy hands ufunc results back as the operand's subclass; __array_finalize__ sees that operand
        out = type(sub)._make(out.buf, out._view, base=None, finalize_from=sub)
    # affine ranges survive + / - of integer scalars
    if len(operands) == 2 and len(arrs) == 1 and arrs[0].affine is not None and op in (_op_add, _op_sub):
        other = operands[1] if operands[0] is arrs[0] else operands[0]
        if is_int_like(other) and not isinstance(other, bool):
            if op is _op_add:
                out.affine = arrs[0].affine + I(other)
            elif operands[0] is arrs[0]:
                out.affine = arrs[0].affine - I(other)
    return out


def blocks_of(a):
    if a.blocks is not None and a.buf.state is None:
        return a.blocks
    if a.buf.segments and a._view.is_identity_of(a.buf.shape):
        pass
    if a.ndim == 0:
        return [Block((), a.snap(), a.kind)]
    if a.ndim == 1:
        return [Block(a.shape, a.snap(), a.kind)]
    return [Block(a.shape, a.snap(), a.kind)]


def _blocks_at(blocks, idx):
    t = I(idx[0])
    acc = IExpr.const(0)
    for b in blocks:
        if len(b.shape) > 1 and not b.scalar:
            sq = b.squeezed()
            if len(sq.shape) > 1:
                raise OutOfReach('element access into a raveled multi-dimensional block')
            b = sq
        n = b.size
        if CTX.decide(t < acc + n):
            if b.scalar or len(b.shape) == 0:
                return b.fn(())
            return b.fn((t - acc,))
        acc = acc + n
    raise IndexError('index %s out of bounds for blocks array' % (t,))


def make_blocks_array(blocks):
    blocks = list(blocks)
    total = IExpr.const(0)
    for b in blocks:
        total = total + b.size
    kinds = {b.kind for b in blocks}
    kind = 'real' if 'real' in kinds else ('int' if 'int' in kinds else 'bool')
    buf = Buffer((total,), None, kind, origin='blocks')
    out = SymNDArray._make(buf, View.identity((total,)), blocks=blocks)
    return out


def array_from_list(x):
    """np.array(list of scalars / nested lists of concrete length)"""
    if isinstance(x, SymNDArray):
        return x
    if isinstance(x, (list, tuple)):
        if len(x) == 0:
            return SymNDArray.from_fn((0,), lambda idx: R.const(0), 'real', origin='array')
        if all(is_scalar(e) for e in x):
            kinds = [kind_of_scalar(e) for e in x]
            kind = 'real' if 'real' in kinds else ('int' if 'int' in kinds else 'bool')
            vals = [to_value(e, kind) for e in x]

            def fn(idx, vals=vals):
                i = I(idx[0])
                if i.is_const():
                    return vals[i.const_value()]
                for j in range(len(vals)):
                    if CTX.decide(i == j):
                        return vals[j]
                raise IndexError('index out of range')
            out = SymNDArray.from_fn((len(vals),), fn, kind, origin='array')
            out.elements = vals
            return out
        subs = [array_from_list(e) for e in x]
        return stack0(subs)
    raise OutOfReach('np.array of %r' % (type(x),))


def stack0(subs):
    shape0 = subs[0].shape
    kind = 'real' if any(s.kind == 'real' for s in subs) else subs[0].kind
    snaps = [s.snap() for s in subs]

    def fn(idx):
        i = I(idx[0])
        if not i.is_const():
            for j in range(len(snaps)):
                if CTX.decide(i == j):
                    return snaps[j](idx[1:])
            raise IndexError
        return snaps[i.const_value()](idx[1:])
    return SymNDArray.from_fn((len(subs),) + tuple(shape0), fn, kind, origin='array')


def reshape(a, shape):
    shape = tuple(I(s) for s in shape)
    total_new = iprod(shape)
    total_old = iprod(a.shape)
    if not (total_new.same(total_old) or CTX.entails(total_new == total_old)):
        raise ValueError('cannot reshape array of size %s into shape %s' % (total_old, shape))
    # same shape
    if len(shape) == a.ndim and all(dims_equal(x, y) for x, y in zip(shape, a.shape)):
        return a.view()
    # raveled blocks -> back to the single block's shape
    if a.blocks is not None and a.buf.state is None and len(a.blocks) == 1:
        b = a.blocks[0]
        if len(b.shape) == len(shape) and all(dims_equal(x, y) for x, y in zip(shape, b.shape)):
            return SymNDArray.from_fn(shape, b.fn, b.kind, origin='reshape')
    # only insertion / removal of length-1 axes
    core_old = [s for s in a.shape if not is_lit(s, 1)]
    core_new = [s for s in shape if not is_lit(s, 1)]
    if len(core_old) == len(core_new) and all(dims_equal(x, y) for x, y in zip(core_old, core_new)):
        snap = a.snap()
        keep_old = [j for j, s in enumerate(a.shape) if not is_lit(s, 1)]
        keep_new = [j for j, s in enumerate(shape) if not is_lit(s, 1)]
        nd_old = a.ndim

        def fn(idx):
            src = [I(0)] * nd_old
            for jo, jn in zip(keep_old, keep_new):
                src[jo] = idx[jn]
            return snap(tuple(src))
        return SymNDArray.from_fn(shape, fn, a.kind, origin='reshape')
    # 1-D vector -> nd: index through the C-order linear index (cell vectors, arange)
    if a.ndim == 1:
        snap = a.snap()

        def fn(idx, shape=shape):
            return snap((IExpr({((Lin(shape, idx), 1),): 1}),))
        out = SymNDArray.from_fn(shape, fn, a.kind, origin='reshape')
        return out
    # nd -> 1-D
    if len(shape) == 1:
        return a.ravel()
    raise OutOfReach('reshape %s -> %s' % (a.shape, shape))


def lin_atom(shape, idx):
    return IExpr({((Lin(shape, idx), 1),): 1})


def _adv_items(arr, k):
    """advanced indexing: integer scalars / integer arrays (broadcast together), optionally mixed with slices
    (numpy rule: if the advanced items are adjacent their broadcast axes replace them in place, otherwise they
    come first).  returns ([per source axis: getter over the result index], result shape)"""
    k = list(k)
    if any(x is Ellipsis or x is None for x in k):
        raise OutOfReach('Ellipsis / newaxis mixed with index arrays')
    if len(k) > arr.ndim:
        raise IndexError('too many indices for array')
    k = k + [slice(None)] * (arr.ndim - len(k))
    items = []
    adv_pos = []
    shapes = []
    for j, x in enumerate(k):
        if isinstance(x, (list, tuple)):
            x = array_from_list(list(x))
        if isinstance(x, SymNDArray):
            if x.kind == 'bool':
                raise OutOfReach('boolean mask mixed with other indices')
            if x.kind != 'int':
                raise IndexError('arrays used as indices must be of integer (or boolean) type')
            shapes.append(x.shape)
            items.append(('arr', x))
            adv_pos.append(j)
        elif isinstance(x, slice):
            if x.step is not None and not is_lit(x.step, 1):
                raise OutOfReach('slice step in advanced indexing')
            dim = arr.shape[j]
            s0 = norm_bound(x.start, dim, 0)
            e0 = norm_bound(x.stop, dim, dim)
            check_slice(s0, e0, dim)
            items.append(('sl', s0, e0 - s0))
        elif is_int_like(x) or (isinstance(x, R) and x.is_const()):
            c = I(_unwrap_int(x))
            if c.is_const() and c.const_value() < 0:
                c = I(arr.shape[j]) + c
            check_index(c, I(arr.shape[j]))      # numpy raises IndexError for an out-of-bounds integer here as well
            items.append(('int', c))
            adv_pos.append(j)
        else:
            raise OutOfReach('unsupported index item %r' % (x,))
    bshape = broadcast_shapes(shapes) if shapes else ()
    nb = len(bshape)
    adjacent = (adv_pos == list(range(adv_pos[0], adv_pos[-1] + 1))) if adv_pos else True
    sl_axes = [j for j, it in enumerate(items) if it[0] == 'sl']
    # result layout
    if adjacent:
        first = adv_pos[0] if adv_pos else 0
        before = [j for j in sl_axes if j < first]
        after = [j for j in sl_axes if j > first]
        rshape = [items[j][2] for j in before] + list(bshape) + [items[j][2] for j in after]
        pos_of_slice = {j: t for t, j in enumerate(before)}
        boff = len(before)
        for t, j in enumerate(after):
            pos_of_slice[j] = boff + nb + t
    else:
        rshape = list(bshape) + [items[j][2] for j in sl_axes]
        boff = 0
        pos_of_slice = {j: nb + t for t, j in enumerate(sl_axes)}
    getters = []
    for j, it in enumerate(items):
        if it[0] == 'arr':
            a = it[1]
            if a.blocks is not None and a.buf.state is None:
                g0 = (lambda bidx, a=a: a._blocks_at(bidx))
            else:
                g0 = bcast_getter(a.snap(), a.shape, nb)
            dim = arr.shape[j]

            def gg(idx, g0=g0, dim=dim, boff=boff, nb=nb):
                v = I(g0(tuple(idx[boff:boff + nb])))
                if v.is_const() and v.const_value() < 0:
                    v = I(dim) + v
                return v
            getters.append(gg)
        elif it[0] == 'int':
            getters.append(lambda idx, c=it[1]: c)
        else:
            getters.append(lambda idx, s0=it[1], t=pos_of_slice[j]: s0 + I(idx[t]))
    return getters, tuple(rshape)


def _small_const(shape, limit=64):
    p = iprod(shape)
    return p.is_const() and p.const_value() <= limit


def _value_blocks(value, keyblocks, kind):
    if is_scalar(value):
        cv = to_value(value, kind)
        return [Block((kb.size,), (lambda idx, cv=cv: cv), kind, scalar=True) for kb in keyblocks]
    if not isinstance(value, SymNDArray):
        raise OutOfReach('scatter assignment of %r' % (type(value),))
    if value.blocks is not None and value.buf.state is None:
        vb = value.blocks
        if len(vb) != len(keyblocks):
            raise OutOfReach('scatter: %d value blocks for %d key blocks' % (len(vb), len(keyblocks)))
        out = []
        for b, kb in zip(vb, keyblocks):
            out.append(_fit_block(b, kb, kind))
        return out
    if len(keyblocks) != 1:
        raise OutOfReach('scatter of a plain array through a multi-block key')
    kb = keyblocks[0]
    b = Block(value.shape, value.snap(), value.kind)
    return [_fit_block(b, kb, kind)]


def _fit_block(b, kb, kind):
    """make value block b addressable by the key block's index p (broadcast / squeeze of 1-axes)"""
    ks = kb.shape
    bs = b.shape
    if b.scalar:
        return b
    kcore = [j for j, s in enumerate(ks) if not is_unit(s)]
    bcore = [j for j, s in enumerate(bs) if not is_unit(s)]
    if len(kcore) == len(bcore) and all(dims_equal(ks[i], bs[j]) for i, j in zip(kcore, bcore)):
        f = b.fn
        nb = len(bs)

        def fn(p, f=f, nb=nb, kcore=kcore, bcore=bcore):
            src = [I(0)] * nb
            for i, j in zip(kcore, bcore):
                src[j] = p[i]
            return to_value(f(tuple(src)), kind)
        return Block(ks, fn, kind)
    if len(bcore) == 0:
        f = b.fn
        nb = len(bs)
        return Block(ks, (lambda p, f=f, nb=nb: to_value(f((I(0),) * nb), kind)), kind)
    raise ValueError('shape mismatch: value array of shape %s could not be broadcast to indexing result of shape %s'
                     % (bs, ks))


class AffineMatcher:
    """Inverts p -> E(p) (tuple of IExpr, each component constant or c + p_b, or a Lin atom of such) on demand."""

    def __init__(self, shape, fn):
        self.shape = tuple(I(s) for s in shape)
        self.q = fresh_syms(len(self.shape))
        self.qnames = [next(iter(s.atoms())) for s in self.q]
        self.E = tuple(I(e) for e in fn(tuple(self.q)))

    def _match_comp(self, e, x, sol, conds):
        """e: pattern over q ; x: concrete/symbolic target.  extends sol / conds; returns False if impossible"""
        le = e.as_lin()
        if le is not None:
            lx = I(x).as_lin()
            if lx is None:
                raise OutOfReach('cell-indexed vector accessed with a non-cell index %s' % (x,))
            if len(lx.shape) != len(le.shape) or not all(dims_equal(a, b) for a, b in zip(lx.shape, le.shape)):
                raise OutOfReach('cell index spaces differ: %s vs %s' % (lx, le))
            for ee, xx in zip(le.idx, lx.idx):
                if not self._match_comp(ee, xx, sol, conds):
                    return False
            return True
        if I(x).as_lin() is not None and not e.atoms() & set(self.qnames):
            # constant pattern vs cell index: compare as integers is meaningless -> must be same Lin
            raise OutOfReach('plain integer pattern %s against cell index %s' % (e, x))
        deps = [n for n in self.qnames if n in e.atoms()]
        if not deps:
            conds.append(I(x) == e)
            return True
        if len(deps) > 1 or not e.is_affine() or e.coeff(deps[0]) not in (1, -1):
            raise OutOfReach('index map %s is not unit-affine in one index' % (e,))
        n = deps[0]
        cf = e.coeff(n)
        rest = e - cf * IExpr.sym(n)
        val = (I(x) - rest) * cf
        if n in sol:
            conds.append(sol[n] == val)
        else:
            sol[n] = val
        return True

    def match(self, target):
        """target: tuple of IExpr.  -> (True, p) | (False, None); may raise NeedSplit"""
        sol = {}
        conds = []
        for e, x in zip(self.E, target):
            self._match_comp(e, x, sol, conds)
        p = []
        for n, dim in zip(self.qnames, self.shape):
            if n in sol:
                v = sol[n]
                conds.append(v >= 0)
                conds.append(v < dim)
                p.append(v)
            else:
                if not is_unit(dim):
                    raise OutOfReach('index map does not determine an axis of size %s' % (dim,))
                p.append(I(0))
        for c in conds:
            if not CTX.decide(c):
                return False, None
        return True, tuple(p)


def _scatter_write(buf, keyblocks, vblocks, kind):
    matchers = [AffineMatcher(kb.shape, kb.fn) for kb in keyblocks]

    def cond_fn(bufidx):
        for t, m in enumerate(matchers):
            ok, p = m.match(bufidx)
            if ok:
                return True, None, (t, p)
        return False, None, None

    def val_fn(bufidx, payload):
        t, p = payload
        vb = vblocks[t]
        return to_value(vb.fn(() if vb.scalar else p), kind)
    buf.write(cond_fn, val_fn, 'setitem-adv')


def _affine_after_index(src, k, out):
    if len(k) == 1 and isinstance(k[0], slice):
        s = norm_bound(k[0].start, src.shape[0], 0)
        return src.affine + s
    return None


# ------------------------------------------------------------------------------------------------
#  reductions (only what the repo uses)

def _concrete_indices(a):
    dims = []
    for s in a.shape:
        s = I(s)
        if not s.is_const():
            return None
        dims.append(s.const_value())
    return list(itertools.product(*[range(d) for d in dims]))


def reduce_all(a):
    idxs = _concrete_indices(a)
    if idxs is None:
        raise OutOfReach('np.all over an array of symbolic size')
    r = B.const(True)
    for idx in idxs:
        r = r & _tobool(a.at(idx))
    return r


def reduce_any(a):
    idxs = _concrete_indices(a)
    if idxs is None:
        raise OutOfReach('np.any over an array of symbolic size')
    r = B.const(False)
    for idx in idxs:
        r = r | _tobool(a.at(idx))
    return r


def reduce_sum(a):
    idxs = _concrete_indices(a)
    if idxs is None:
        # opaque total over a symbolic number of entries; the summand array is kept for contracts on it
        name = 'SUM!buf%d' % a.buf.id
        SUMMANDS[name] = a
        return R.var(name)
    r = R.const(0)
    for idx in idxs:
        r = r + R.of(a.at(idx))
    return r


def reduce_minmax(a, which):
    idxs = _concrete_indices(a)
    if idxs is None:
        # an opaque scalar: only used for the (irrelevant) corner rows of 2-D boundary matrices
        return R.var('%s!buf%d' % (which, a.buf.id))
    r = None
    for idx in idxs:
        v = a.at(idx)
        v = R.of(v) if not isinstance(v, IExpr) else R.of(v)
        r = v if r is None else (rmax(r, v) if which == 'max' else rmin(r, v))
    return r
