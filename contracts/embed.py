"""C08: redundant axes, axis relabelling and mirroring change nothing -- relational obligations between two
DIFFERENT real builders (the higher- and the lower-dimensional one, resp. the same builder on the permuted / mirrored
grid) on the operator level: for data that do not vary along a coordinate, every term of the higher-dimensional grid,
evaluated at a symbolic cell, equals the term of the reduced grid (and the part belonging to the redundant axis
vanishes).  With uniqueness of the solution of the assembled system this gives the statement for solutions."""
from .common import *
from .ops import sym_limiter
from fvverif import trace as T
from fvverif.arrays import SymNDArray

# (high grid, low grid, axis map low->high, redundant high axis)
PAIRS = [
    ('Grid2D', 'Grid1D', (0,), 1), ('Grid2D', 'Grid1D', (1,), 0),
    ('Grid3D', 'Grid2D', (0, 1), 2), ('Grid3D', 'Grid2D', (0, 2), 1), ('Grid3D', 'Grid2D', (1, 2), 0),
    ('CylindricalGrid3D', 'CylindricalGrid2D', (0, 2), 1), ('CylindricalGrid3D', 'PolarGrid2D', (0, 1), 2),
    ('CylindricalGrid2D', 'CylindricalGrid1D', (0,), 1), ('PolarGrid2D', 'CylindricalGrid1D', (0,), 1),
]


def _high_from_low(w, wl, axmap, b, prefix):
    """coefficient FaceVariables: low one with independent arrays, high one extruded from it (component on the redundant
    axis: arbitrary but constant along that axis)"""
    nd, ndl = w.nd, wl.nd
    low = wl.facevar(prefix)
    comps = [None] * nd
    for al in range(ndl):
        ah = axmap[al]
        comps[ah] = w.extrude(getattr(low, '_' + AX[al] + 'value'), list(axmap), w.face_shape(ah))
    extra = wl.array(prefix + '_red', tuple(wl.N))
    comps[b] = w.extrude(extra, list(axmap), w.face_shape(b))
    while len(comps) < 3:
        comps.append(w.np.array([]))
    high = fac.FaceVariable(w.mesh, comps[0], comps[1], comps[2])
    return high, low


class _Embed(Ob):
    props = ('C08',)
    pair = None

    def parts(self, w):
        return list(range(w.nd))

    def worlds(self, w):
        hg, lg, axmap, b = self.pair
        wl = w.sibling(lg, axmap)
        return wl, axmap, b

    def field(self, w, wl, axmap):
        pl = wl.rawcell('p')
        ph = T.RawCell(w.mesh, w.extrude(pl._value, list(axmap), w.ghost_shape()))
        return ph, pl

    def lowP(self, P, axmap):
        return tuple(P[a] for a in axmap)


def _mk_embed():
    for n, pair in enumerate(PAIRS):
        hg, lg, axmap, b = pair
        tag = '%s->%s(drop %s)' % (hg, lg, AX[b])

        class MatrixTerms(_Embed):
            """diffusion, central and upwind convection matrices applied to the extruded field"""
            def setup(self, w):
                wl, axmap, b = self.worlds(w)
                ph, pl = self.field(w, wl, axmap)
                out = dict(wl=wl, ph=ph._value, pl=pl._value)
                for nm, mod, pre in (('diffusionTerm', dif, 'D'), ('convectionTerm', adv, 'u'), ('convectionUpwindTerm', adv, 'v')):
                    kh, kl = _high_from_low(w, wl, axmap, b, pre)
                    out[nm] = (parts(builder(mod, nm, w.grid)(kh))[1], parts(builder(mod, nm, wl.grid)(kl))[1])
                return out

            def claims(self, w, S, P, a):
                wl, axmap, b = self.worlds(w)
                wl = S['wl']
                res = []
                for nm in ('diffusionTerm', 'convectionTerm', 'convectionUpwindTerm'):
                    hi, lo = S[nm]
                    hv = w.apply(hi[a], S['ph'], P)
                    if a == b:
                        res.append(('%s_part_of_redundant_axis_vanishes[%s]' % (nm, AX[a]), w.eq(hv, 0)))
                    else:
                        al = list(axmap).index(a)
                        res.append(('%s_equals_reduced_grid[%s]' % (nm, AX[a]), w.eq(hv, wl.apply(lo[al], S['pl'], self.lowP(P, axmap)))))
                if not w.symbolic:
                    w.scale = 100.0
                return res

        class VectorTerms(_Embed):
            """explicit divergence and TVD correction of the extruded data"""
            def setup(self, w):
                wl, axmap, b = self.worlds(w)
                ph, pl = self.field(w, wl, axmap)
                Fh, Fl = _high_from_low(w, wl, axmap, b, 'F')
                uh, ul = _high_from_low(w, wl, axmap, b, 'u')
                FL = sym_limiter(w)
                if not w.symbolic:
                    FL = pf.fluxLimiter('SUPERBEE')
                return dict(wl=wl,
                            div=(parts(builder(cal, 'divergenceTerm', w.grid)(Fh))[1], parts(builder(cal, 'divergenceTerm', wl.grid)(Fl))[1]),
                            tvd=(parts(builder(adv, 'convectionTvdRHS', w.grid)(uh, ph, FL))[1],
                                 parts(builder(adv, 'convectionTvdRHS', wl.grid)(ul, pl, FL))[1]))

            def claims(self, w, S, P, a):
                wl, axmap, b = self.worlds(w)
                wl = S['wl']
                res = []
                for nm in ('div', 'tvd'):
                    hi, lo = S[nm]
                    hv = w.vec(hi[a], P)
                    if a == b:
                        res.append(('%s_part_of_redundant_axis_vanishes[%s]' % (nm, AX[a]), w.eq(hv, 0)))
                    else:
                        al = list(axmap).index(a)
                        res.append(('%s_equals_reduced_grid[%s]' % (nm, AX[a]), w.eq(hv, wl.vec(lo[al], self.lowP(P, axmap)))))
                if not w.symbolic:
                    w.scale = 100.0
                return res

        for cls, nm in ((MatrixTerms, 'matrix_terms'), (VectorTerms, 'vector_terms')):
            cls.pair = pair
            cls.grids = (hg,)
            cls.name = 'embedding/%s/%s' % (tag, nm)
            cls.__name__ = 'Embed%d_%s' % (n, nm)
            cls.__qualname__ = cls.__name__
            cls.__module__ = __name__
            cls.uf_congruence = False      # arguments of psi are identified by the exact normaliser
            globals()[cls.__name__] = cls


_mk_embed()


class AxisPermutation(_Embed):
    """Cartesian grids: swapping two axes (faces, coefficient components, field transposed) permutes every term"""
    name = 'permutation/swap_first_two_axes'
    grids = ('Grid2D', 'Grid3D')
    uf_congruence = False

    def setup(self, w):
        nd = w.nd
        perm = (1, 0) + tuple(range(2, nd))
        w2 = w.sibling(w.grid, perm)
        phi = w.rawcell('p')
        phi2 = T.RawCell(w2.mesh, phi._value.transpose(perm))
        out = dict(w2=w2, perm=perm, ph=phi._value, ph2=phi2._value)
        FL = sym_limiter(w) if w.symbolic else pf.fluxLimiter('SUPERBEE')
        for nm, mod, pre in (('diffusionTerm', dif, 'D'), ('convectionTerm', adv, 'u'), ('convectionUpwindTerm', adv, 'v')):
            k = w.facevar(pre)
            comps = [getattr(k, '_' + AX[perm[a]] + 'value').transpose(perm) for a in range(nd)]
            while len(comps) < 3:
                comps.append(w.np.array([]))
            k2 = fac.FaceVariable(w2.mesh, comps[0], comps[1], comps[2])
            out[nm] = (parts(builder(mod, nm, w.grid)(k))[1], parts(builder(mod, nm, w.grid)(k2))[1])
            if nm == 'convectionUpwindTerm':
                out['tvd'] = (parts(builder(adv, 'convectionTvdRHS', w.grid)(k, phi, FL))[1],
                              parts(builder(adv, 'convectionTvdRHS', w.grid)(k2, phi2, FL))[1])
        return out

    def claims(self, w, S, P, a):
        perm = S['perm']
        w2 = S['w2']
        P2 = tuple(P[perm[b]] for b in range(w.nd))
        a2 = list(perm).index(a)
        res = []
        for nm in ('diffusionTerm', 'convectionTerm', 'convectionUpwindTerm'):
            hi, lo = S[nm]
            res.append(('%s_permuted[%s]' % (nm, AX[a]), w.eq(w.apply(hi[a], S['ph'], P), w2.apply(lo[a2], S['ph2'], P2))))
        hi, lo = S['tvd']
        res.append(('tvd_permuted[%s]' % AX[a], w.eq(w.vec(hi[a], P), w2.vec(lo[a2], P2))))
        if not w.symbolic:
            w.scale = 100.0
        return res


class Mirror(_Embed):
    """Cartesian grids: reflecting the first axis (faces -> -faces reversed, data reversed, the velocity component along
    that axis reversed and negated) mirrors every term: T'(phi')[i'] = T(phi)[N+1-i']"""
    name = 'mirror/first_axis'
    grids = ('Grid1D', 'Grid2D', 'Grid3D')
    uf_congruence = False
    reverse_velocity = True

    def setup(self, w):
        m2 = w.mirrored_mesh(0)
        phi = w.rawcell('p')
        phi2 = T.RawCell(m2, w.flip(phi._value, 0))
        out = dict(ph=phi._value, ph2=phi2._value)
        for nm, mod, pre, neg in (('diffusionTerm', dif, 'D', False), ('convectionTerm', adv, 'u', True), ('convectionUpwindTerm', adv, 'v', True)):
            k = w.facevar(pre)
            comps = []
            for a in range(w.nd):
                c = getattr(k, '_' + AX[a] + 'value')
                comps.append(w.flip(c, 0, negate=(neg and a == 0 and self.reverse_velocity)))
            while len(comps) < 3:
                comps.append(w.np.array([]))
            k2 = fac.FaceVariable(m2, comps[0], comps[1], comps[2])
            out[nm] = (parts(builder(mod, nm, w.grid)(k))[1], parts(builder(mod, nm, w.grid)(k2))[1])
        return out

    def claims(self, w, S, P, a):
        P2 = (w.N[0] + 1 - P[0],) + tuple(P[1:])
        res = []
        for nm in ('diffusionTerm', 'convectionTerm', 'convectionUpwindTerm'):
            hi, lo = S[nm]
            res.append(('%s_mirrored[%s]' % (nm, AX[a]), w.eq(w.apply(hi[a], S['ph'], P), w.apply(lo[a], S['ph2'], P2))))
        if not w.symbolic:
            w.scale = 100.0
        return res


def _paired_bcs(w, wl, axmap, b):
    """BoundaryConditions of the reduced grid with independent coefficient arrays, and of the higher-dimensional grid
    with the same arrays extruded along the redundant axis b (whose own two faces keep the default no-flux condition)"""
    from .bc import SIDES, side_shape
    BCl = bnd.BoundaryConditions(wl.mesh)
    BCh = bnd.BoundaryConditions(w.mesh)
    for al in range(wl.nd):
        ah = axmap[al]
        for s in (0, 1):
            fl, fh = getattr(BCl, SIDES[al][s]), getattr(BCh, SIDES[ah][s])
            for cn in 'abc':
                arr = wl.array('e%d%d%d%s_%s' % (axmap[0], b, al, 'lh'[s], cn), side_shape(wl, al))
                setattr(fl, cn, arr)
                keep = [x for x in range(w.nd) if x != ah]            # axes of the high face array
                lowkeep = [x for x in axmap if x != ah]              # those that exist in the low grid
                pos = [keep.index(x) for x in lowkeep]
                if wl.nd == 1:
                    if w.symbolic:
                        big = SymNDArray.from_fn(side_shape(w, ah), (lambda idx, sn=arr.snap(): sn((I(0),))), 'real')
                    else:
                        big = T.real_np.full(tuple(int(x) for x in side_shape(w, ah)), float(arr[0]))
                else:
                    big = w.extrude(arr, pos, side_shape(w, ah))
                setattr(fh, cn, big)
    return BCl, BCh


class BoundaryEmbedding(_Embed):
    """ghost values and boundary rows of the higher-dimensional grid with coefficient arrays that do not vary along the
    redundant axis equal those of the reduced grid (the redundant axis itself being no-flux)"""
    name = 'embedding/boundary_values'
    pairs = PAIRS

    def parts(self, w):
        return [None]

    grids = tuple(sorted({p[0] for p in PAIRS}))

    def setup(self, w):
        out = []
        for hg, lg, axmap, b in PAIRS:
            if hg != w.grid:
                continue
            wl = w.sibling(lg, axmap)
            BCl, BCh = _paired_bcs(w, wl, axmap, b)
            inner_l = wl.array('in_%d%d' % (axmap[0], b), tuple(wl.N))
            inner_h = w.extrude(inner_l, list(axmap), tuple(w.N))
            gl = bnd.cellValuesWithBoundaries(inner_l, BCl)
            gh = bnd.cellValuesWithBoundaries(inner_h, BCh)
            out.append((wl, axmap, b, gl, gh))
        return dict(out=out)

    def region(self, w):
        return [c for a in range(w.nd) for c in (I(w.P[a]) >= 0, I(w.P[a]) <= w.N[a] + 1)]

    def points(self, w):
        import itertools
        return list(itertools.product(*[range(0, n + 2) for n in w.N]))

    def claims(self, w, S, P, part=None):
        res = []
        for wl, axmap, b, gl, gh in S['out']:
            # face-ghost or interior cell whose redundant-axis index is interior
            nb = 0
            for a in range(w.nd):
                onb = CTX.decide((I(P[a]) == 0) | (I(P[a]) == w.N[a] + 1)) if w.symbolic else (P[a] in (0, w.N[a] + 1))
                nb += 1 if onb else 0
            on_b = CTX.decide((I(P[b]) == 0) | (I(P[b]) == w.N[b] + 1)) if w.symbolic else (P[b] in (0, w.N[b] + 1))
            if nb > 1:
                continue
            Pl = tuple(P[a] for a in axmap)
            if on_b:
                # ghost layer of the redundant axis: no-flux -> equals the adjacent interior value = the low-grid value
                Pl_in = Pl
                res.append(('redundant_axis_ghost_is_interior_value[%s->%s]' % (w.grid, wl.grid), w.eq(w.at(gh, P), wl.at(gl, Pl_in))))
            else:
                res.append(('boundary_values_equal_reduced_grid[%s->%s drop %s]' % (w.grid, wl.grid, AX[b]), w.eq(w.at(gh, P), wl.at(gl, Pl))))
        if not w.symbolic:
            w.scale = 1e3
        return res


class BoundaryRowsEmbedding(_Embed):
    """the boundary EQUATIONS of the higher-dimensional grid (rows of boundaryConditionsTerm, what the implicit solver
    uses), applied to a field that does not vary along the redundant axis, equal those of the reduced grid on every
    face ghost of a retained axis, and are satisfied identically on the (no-flux) faces of the redundant axis"""
    name = 'embedding/boundary_rows'
    grids = tuple(sorted({p[0] for p in PAIRS}))

    def parts(self, w):
        return [None]

    def setup(self, w):
        out = []
        for hg, lg, axmap, b in PAIRS:
            if hg != w.grid:
                continue
            wl = w.sibling(lg, axmap)
            BCl, BCh = _paired_bcs(w, wl, axmap, b)
            Ml, Rl = bnd.boundaryConditionsTerm(BCl)
            Mh, Rh = bnd.boundaryConditionsTerm(BCh)
            pl = wl.rawcell('q_%d%d' % (axmap[0], b))
            ph = T.RawCell(w.mesh, w.extrude(pl._value, list(axmap), w.ghost_shape()))
            out.append((wl, axmap, b, Ml, Rl, Mh, Rh, pl._value, ph._value))
        return dict(out=out)

    def region(self, w):
        return [c for a in range(w.nd) for c in (I(w.P[a]) >= 0, I(w.P[a]) <= w.N[a] + 1)]

    def points(self, w):
        import itertools
        return list(itertools.product(*[range(0, n + 2) for n in w.N]))

    def claims(self, w, S, P, part=None):
        res = []
        for wl, axmap, b, Ml, Rl, Mh, Rh, pl, ph in S['out']:
            onb = []
            for a in range(w.nd):
                o = CTX.decide((I(P[a]) == 0) | (I(P[a]) == w.N[a] + 1)) if w.symbolic else (P[a] in (0, w.N[a] + 1))
                onb.append(o)
            if sum(1 for o in onb if o) != 1:
                continue          # interior cells have no boundary row; corner / edge cells are bookkeeping rows
            rh = w.apply(Mh, ph, P) - w.vec(Rh, P)
            if onb[b]:
                res.append(('redundant_axis_rows_hold_identically[%s->%s drop %s]' % (w.grid, wl.grid, AX[b]), w.eq(rh, 0)))
            else:
                Pl = tuple(P[a] for a in axmap)
                rl = wl.apply(Ml, pl, Pl) - wl.vec(Rl, Pl)
                res.append(('boundary_rows_equal_reduced_grid[%s->%s drop %s]' % (w.grid, wl.grid, AX[b]), w.eq(rh, rl)))
        if not w.symbolic:
            w.scale = 1e3
        return res


# ------------------------------------------------------------------------------------------------
#  cyclic shift along a periodic uniform axis

def _remap(w, arr, axis, mp):
    """array with the same shape whose entry at index k along `axis` is arr's entry at mp(k)"""
    if w.symbolic:
        snap = arr.snap()

        def fn(idx):
            j = list(idx)
            j[axis] = mp(I(idx[axis]))
            return snap(tuple(j))
        return SymNDArray.from_fn(tuple(arr.shape), fn, 'real', origin='remap')
    a = T.real_np.asarray(arr, dtype=float)
    return T.real_np.take(a, [int(mp(k)) for k in range(a.shape[axis])], axis=axis).copy()


def _eq(w, k, v):
    return CTX.decide(I(k) == I(v)) if w.symbolic else (int(k) == int(v))


class _PeriodicShift(_Embed):
    """Cartesian grid, axis `ax` uniform and periodic: shifting all data by one cell along that axis (cell fields,
    face coefficients; periodic ghost cells = wrap) shifts every term by one cell:
        T[shifted data](shifted field)[i] = T[data](field)[i-1]   (i >= 2),      ...[1] = ...[N]
    for diffusion, central and upwind convection, the TVD correction and the explicit divergence; a shift by s cells
    follows by iteration (lemma invariant_iterate), solutions by uniqueness (unique_solution)."""
    ax = 0
    uf_congruence = False

    def parts(self, w):
        return list(range(w.nd))

    def setup(self, w):
        a = self.ax
        N = w.N[a]
        x0 = w.scalar('x0')
        h = w.scalar('hstep', 'pos')
        fm = [None] * w.nd
        if w.symbolic:
            fm[a] = lambda f: SymNDArray.from_fn((N + 1,), (lambda idx: R.of(x0) + R.of(I(idx[0])) * R.of(h)), 'real', origin='uniform')
        else:
            fm[a] = lambda f: x0 + h * T.real_np.arange(len(f), dtype=float)
        mesh = T.make_mesh(w.src, w.grid, facemap=fm)

        wrap_c = lambda k: (N if _eq(w, k, 0) else (1 if _eq(w, k, N + 1) else k))           # noqa: E731
        shift_c = lambda k: (N - 1 if _eq(w, k, 0) else k - 1)                              # noqa: E731  (on a wrapped array)
        wrap_f = lambda f: (0 if _eq(w, f, N) else f)                                        # noqa: E731
        shift_f = lambda f: (N - 1 if _eq(w, f, 0) else f - 1)                              # noqa: E731
        shift_i = lambda m: (N - 1 if _eq(w, m, 0) else m - 1)                              # noqa: E731

        full = w.rawcell('p')._value
        phi = _remap(w, full, a, wrap_c)
        phis = _remap(w, phi, a, shift_c)
        out = dict(phi=phi, phis=phis)

        def pair(prefix):
            k = w.facevar(prefix)
            comps, comps_s = [], []
            for b in range(w.nd):
                c = getattr(k, '_' + AX[b] + 'value')
                if b == a:
                    cp = _remap(w, c, a, wrap_f)
                    comps.append(cp)
                    comps_s.append(_remap(w, cp, a, shift_f))
                else:
                    comps.append(c)
                    comps_s.append(_remap(w, c, a, shift_i))
            while len(comps) < 3:
                comps.append(w.np.array([]))
                comps_s.append(w.np.array([]))
            return fac.FaceVariable(mesh, *comps), fac.FaceVariable(mesh, *comps_s)
        for nm, mod, pre in (('diffusionTerm', dif, 'D'), ('convectionTerm', adv, 'u'), ('convectionUpwindTerm', adv, 'v'),
                             ('divergenceTerm', cal, 'F')):
            k, ks = pair(pre)
            out[nm] = (parts(builder(mod, nm, w.grid)(k))[1], parts(builder(mod, nm, w.grid)(ks))[1])
        k, ks = pair('t')
        FL = sym_limiter(w) if w.symbolic else pf.fluxLimiter('SUPERBEE')
        out['tvd'] = (parts(builder(adv, 'convectionTvdRHS', w.grid)(k, T.RawCell(mesh, phi), FL))[1],
                      parts(builder(adv, 'convectionTvdRHS', w.grid)(ks, T.RawCell(mesh, phis), FL))[1])
        return out

    def claims(self, w, S, P, b):
        a = self.ax
        N = w.N[a]
        first = _eq(w, P[a], 1)
        Q = list(P)
        Q[a] = N if first else P[a] - 1
        Q = tuple(Q)
        res = []
        for nm in ('diffusionTerm', 'convectionTerm', 'convectionUpwindTerm'):
            T0, Ts = S[nm]
            res.append(('%s_shifts[%s]' % (nm, AX[b]), w.eq(w.apply(Ts[b], S['phis'], P), w.apply(T0[b], S['phi'], Q))))
        for nm in ('divergenceTerm', 'tvd'):
            T0, Ts = S[nm]
            res.append(('%s_shifts[%s]' % (nm, AX[b]), w.eq(w.vec(Ts[b], P), w.vec(T0[b], Q))))
        if not w.symbolic:
            w.scale = 1e3
        return res


def _mk_shift():
    for g in ('Grid1D', 'Grid2D', 'Grid3D'):
        for ax in range(GRIDS[g]['nd']):
            cn = 'PeriodicShift_%s_%s' % (g, AX[ax])
            cls = type(cn, (_PeriodicShift,), dict(ax=ax, grids=(g,), name='periodic_shift/%s_axis' % AX[ax],
                                                   quick=(ax == GRIDS[g]['nd'] - 1)))
            cls.__module__ = __name__
            globals()[cn] = cls


_mk_shift()
