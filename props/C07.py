"""C07 discrete maximum principle"""
from .common import jobs_for
LEVEL = 'proof'
LEVEL_TEXT = 'per-row hypotheses of the discrete maximum principle are proved on the real builders for a symbolic cell on all 9 grids: off-diagonals of -diffusion(D>=0)+upwind(u) are <= 0 (ghost columns included, every sign pattern of u), no other entries, diagonal = -(off-diagonals) + div(u); the transient term adds alpha/dt on the diagonal and alpha*old/dt on the right-hand side, the linear sink beta_P on the diagonal (C12/C06 contracts); ghost rows are the Robin relation (C03); the face-ghost unknowns are ELIMINATED symbolically with the traced rows of boundaryConditionsTerm for boundaries set through the real fixedValue / defaultNoFlux / periodic methods (every Dirichlet/no-flux combination per axis, periodic axes on arbitrary -- also unequal -- end cells, single-cell axes) and the eliminated row is proved to have non-positive off-diagonals, non-negative weights on the Dirichlet data and diagonal = -(off-diagonals) + weights + div(u) (contracts/dmp.py); the maximum principle itself for such a row system is the Lean lemma dmp_upper / dmp_lower (lemmas/FVLemmas.lean, checked by lake build with Mathlib)'
LEVEL_NOTE = 'the correspondence between the SMT-proved per-row clauses and the hypotheses of the Lean lemma (table in DESIGN.md Appendix D) is part of the trusted base (A6); several steps follow by induction on the step count; floating-point round-off can exceed the bound by ulps (A1); the per-axis eliminated-row clauses add up over the axes (sum of proved identities / inequalities, not separately mechanised)'
MODULES = ['contracts.ops', 'contracts.solver', 'contracts.bc', 'contracts.dmp']
NOT_MACHINE_CHECKED = ['correspondence between the SMT-proved per-row clauses (E0-E3 of contracts/dmp.py, transient and sink contracts) and the hypotheses of the Lean lemmas dmp_upper / dmp_lower (table in DESIGN.md Appendix D)', 'induction over the number of time steps (each step maps an interval into itself)', 'floating-point round-off (the bound can be exceeded by ulps)']
TRUSTED = ['A1', 'A2', 'A4', 'A5', 'A6', 'UF']


def jobs(tier):
    js = jobs_for('C07', MODULES, tier)
    return js


def extra(tier, seed):
    from fvverif.lean import lemma_status
    ok, detail = lemma_status(['dmp_upper', 'dmp_lower', 'invariant_iterate'], rebuild=(tier == 'thorough'))
    return [('lean lemmas dmp_upper/dmp_lower', ok, 'lean:' + detail)]
