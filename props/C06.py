"""C06 uniform fields stay uniform"""
from .common import jobs_for
LEVEL = 'proof'
LEVEL_TEXT = 'diffusion of a constant is zero, central/upwind of a constant equals c*div(u) and the TVD correction of a constant is zero (arbitrary uninterpreted limiter), per axis for a symbolic interior cell on all 9 grids'
LEVEL_NOTE = 'steady-state corollary through solvePDE relies on the solver contract (A4); explicit-u_upwind-with-exact-zeros is a recorded finding'
NOT_MACHINE_CHECKED = ['steady state of solvePDE: the uniform field satisfies every assembled row (proved) and is THE solution only if the system is non-singular (A4, Lean unique_solution)']
MODULES = ['contracts.ops', 'contracts.canaries']
TRUSTED = ['A1', 'A2', 'A5', 'A6', 'UF']


def jobs(tier):
    return jobs_for('C06', MODULES, tier)


def extra(tier, seed):
    from fvverif.lean import lemma_status
    ok, detail = lemma_status(['unique_solution', 'invariant_iterate'], rebuild=(tier == 'thorough'))
    return [('lean lemmas unique_solution/invariant_iterate: the uniform field satisfies every row (SMT) => it is THE solution; any number of steps by iteration', ok, 'lean:' + detail)]
