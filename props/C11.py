"""C11 cell-to-face means"""
from .common import jobs_for
LEVEL = 'proof'
LEVEL_TEXT = 'every face value of arithmeticMean, linearMean, harmonicMean, geometricMean and upwindMean is proved equal to its specification in the two adjacent cell values and cell widths, for a symbolic face on every axis of every grid (the 1-D loops are summarised by generic iteration); between-neighbours, constants, harmonic<=arithmetic, exactness of linearMean on linear fields, donor / boundary / zero-velocity cases of upwindMean, two-cell support, zeros'
LEVEL_NOTE = 'geometric mean: exp/log uninterpreted with monotonicity and exp(log x)=x instantiated on the applications present; harmonic <= geometric <= arithmetic for the exp/log form is the weighted AM-GM-HM inequality (Mathlib lemma, DESIGN 2.5), not re-proved by SMT; 2-D/3-D geometricMean on exact zeros relies on IEEE log(0)/exp(-inf): bounded stand-in only'
NOT_MACHINE_CHECKED = ['harmonic <= geometric <= arithmetic for the geometric mean in exp/log form: Lean lemmas geom_le_arith / harm_le_geom (weighted AM-GM from Mathlib); the SMT side proves that the traced term IS exp((w0 log a + w1 log b)/(w0+w1))', '2-D/3-D geometricMean on data with exact zeros relies on IEEE log(0) = -inf, exp(-inf) = 0: bounded stand-in (labelled bounded)']
MODULES = ['contracts.means']
TRUSTED = ['A1', 'A2', 'A5', 'A6', 'UF']


def jobs(tier):
    return jobs_for('C11', MODULES, tier)


def extra(tier, seed):
    from fvverif.lean import lemma_status
    ok, detail = lemma_status(['geom_le_arith', 'harm_le_geom'], rebuild=(tier == 'thorough'))
    return [('lean lemmas harmonic <= geometric <= arithmetic (weighted, exp/log form)', ok, 'lean:' + detail)]
