"""Tracing harness: imports the real pyfvtool from the repository's working tree, rebinds the module globals
`np`, `csr_array`, `spsolve`, `deepcopy`, `warn`, `TrackedArray` to the symbolic model for the duration of a trace,
builds symbolic / concrete inputs from one scenario description, and evaluates symbolic results at concrete
sizes (conformance of the model against the real numpy / scipy, DESIGN 4.5)."""
import ast
import contextlib
import copy as _copy
import itertools
import os
import sys
import types
from fractions import Fraction

REPO = os.environ.get('VERIF_REPO', '/repo')
SRC = os.path.join(REPO, 'src')
if SRC not in sys.path:
    sys.path.insert(0, SRC)
for _k in [k for k in sys.modules if k == 'pyfvtool' or k.startswith('pyfvtool.')]:
    del sys.modules[_k]

import numpy as real_np          # noqa: E402
import scipy.sparse as real_sp   # noqa: E402
import pyfvtool as pf            # noqa: E402

assert os.path.realpath(pf.__file__).startswith(os.path.realpath(SRC)), (pf.__file__, SRC)

from .ints import IExpr, ICond, I, CTX, OutOfReach, NeedSplit, Lin, explore   # noqa: E402
from .reals import R, B, evaluate, frac_of_float, NAN                        # noqa: E402
from . import arrays as A                                                    # noqa: E402
from .arrays import SymNDArray, array_from_list, lin_atom                    # noqa: E402
from . import npshim                                                         # noqa: E402
from .npshim import NP, SymSparse                                            # noqa: E402

MODNAMES = ['mesh', 'utilities', 'boundary', 'cell', 'face', 'diffusion', 'advection', 'calculus',
            'averaging', 'source', 'pdesolver']
MODS = {n: sys.modules['pyfvtool.' + n] for n in MODNAMES}
WARNINGS = []


def _sym_warn(msg, *a, **k):
    WARNINGS.append(str(msg))


def _compile_tracked_array():
    """re-compile the TrackedArray ClassDef from the current utilities.py with np = the model (so that its base
    class is the model's ndarray).  Dropped: nothing but the docstring's meaning."""
    path = os.path.join(SRC, 'pyfvtool', 'utilities.py')
    src = open(path).read()
    tree = ast.parse(src)
    cd = [n for n in tree.body if isinstance(n, ast.ClassDef) and n.name == 'TrackedArray']
    if len(cd) != 1:
        raise OutOfReach('utilities.py: expected exactly one TrackedArray class, found %d' % len(cd))
    mod = ast.Module(body=cd, type_ignores=[])
    ns = {'np': NP, '__name__': 'pyfvtool.utilities(sym)'}
    exec(compile(mod, path, 'exec'), ns)
    return ns['TrackedArray']


SymTrackedArray = None
SPSOLVE = npshim.make_spsolve('spsolve')

# ------------------------------------------------------------------------------------------------
#  which real function bodies a trace executed (evidence: "functions under contract" is measured, not declared).
#  sys.monitoring PY_START fires once per code object (the callback returns DISABLE) until restart_events().

PKG = os.path.join(os.path.realpath(SRC), 'pyfvtool') + os.sep
CALLED = set()
_MON_ON = [False]


def _on_py_start(code, offset):
    fn = code.co_filename
    if fn.startswith(PKG) or os.path.realpath(fn).startswith(PKG):
        q = code.co_qualname
        if not q.endswith(('<module>', '<listcomp>', '<genexpr>', '<dictcomp>', '<setcomp>')):
            CALLED.add('pyfvtool.%s.%s' % (os.path.basename(fn)[:-3], q))
    return sys.monitoring.DISABLE


def reset_called():
    """start recording the pyfvtool code objects that get executed from now on"""
    mon = getattr(sys, 'monitoring', None)
    if mon is None:
        return
    if not _MON_ON[0]:
        try:
            mon.use_tool_id(4, 'fvverif')
        except ValueError:
            pass
        mon.register_callback(4, mon.events.PY_START, _on_py_start)
        mon.set_events(4, mon.events.PY_START)
        _MON_ON[0] = True
    CALLED.clear()
    mon.restart_events()


@contextlib.contextmanager
def installed():
    """rebind the model into the pyfvtool modules; restores on exit"""
    global SymTrackedArray
    if SymTrackedArray is None:
        SymTrackedArray = _compile_tracked_array()
    saved = []
    repl = {'np': NP, 'csr_array': npshim.csr_array, 'spsolve': SPSOLVE, 'warn': _sym_warn,
            'TrackedArray': SymTrackedArray}
    try:
        for name, m in MODS.items():
            for g, v in repl.items():
                if g in m.__dict__:
                    saved.append((m, g, m.__dict__[g]))
                    m.__dict__[g] = v
        yield
    finally:
        for m, g, v in reversed(saved):
            m.__dict__[g] = v


# ------------------------------------------------------------------------------------------------
#  grids

GRIDS = {
    'Grid1D':            dict(nd=1, labels={'x': '_x'}, radial=False),
    'CylindricalGrid1D': dict(nd=1, labels={'r': '_x'}, radial=True),
    'SphericalGrid1D':   dict(nd=1, labels={'r': '_x'}, radial=True),
    'Grid2D':            dict(nd=2, labels={'x': '_x', 'y': '_y'}, radial=False),
    'CylindricalGrid2D': dict(nd=2, labels={'r': '_x', 'z': '_y'}, radial=True),
    'PolarGrid2D':       dict(nd=2, labels={'r': '_x', 'theta': '_y'}, radial=True),
    'Grid3D':            dict(nd=3, labels={'x': '_x', 'y': '_y', 'z': '_z'}, radial=False),
    'CylindricalGrid3D': dict(nd=3, labels={'r': '_x', 'theta': '_y', 'z': '_z'}, radial=True),
    'SphericalGrid3D':   dict(nd=3, labels={'r': '_x', 'theta': '_y', 'phi': '_z'}, radial=True),
}
ALL_GRIDS = list(GRIDS)
AX = 'xyz'
SIZE_NAMES = ('Nx', 'Ny', 'Nz')


class SymSource:
    """symbolic inputs: sizes are symbols, arrays are element variables"""
    symbolic = True

    def __init__(self):
        self.N = [IExpr.sym(n) for n in SIZE_NAMES]
        self.arrays = {}     # name -> (shape, kind)
        self.scalars = {}

    def size(self, a):
        return self.N[a]

    def arr(self, name, shape, kind='real'):
        shape = tuple(I(s) for s in shape)
        self.arrays[name] = (shape, kind)
        return SymNDArray.from_fn(shape, lambda idx, name=name: R.var(name, tuple(I(i) for i in idx)), kind,
                                  origin='input:' + name)

    def scalar(self, name):
        self.scalars[name] = True
        return R.var(name)

    @property
    def np(self):
        return NP


class RealSource:
    """concrete inputs with the same names; values are Fractions kept for exact comparison"""
    symbolic = False

    def __init__(self, sizes, rng, values=None, zero_prob=0.15):
        self.N = list(sizes)
        self.rng = rng
        self.values = {} if values is None else values      # name -> numpy object array of Fractions / Fraction
        self.zero_prob = zero_prob
        self.constraints = {}
        self.partial = {}     # name -> {idx tuple: Fraction}: entries fixed by a counter-model

    def size(self, a):
        return self.N[a]

    def _rand(self, name):
        r = self.rng
        kind = self.constraints.get(name)
        if kind == 'pos':
            return Fraction(r.randint(1, 16), r.choice([1, 2, 4, 8]))
        if kind == 'nonzero':
            return Fraction(r.choice([-1, 1]) * r.randint(1, 16), r.choice([1, 2, 4, 8]))
        if kind == 'nonneg':
            return Fraction(r.randint(0, 16), r.choice([1, 2, 4, 8])) if r.random() > self.zero_prob else Fraction(0)
        if r.random() < self.zero_prob:
            return Fraction(0)
        return Fraction(r.randint(-16, 16), r.choice([1, 2, 4, 8]))

    def arr(self, name, shape, kind='real'):
        shape = tuple(int(s) for s in shape)
        if name not in self.values:
            a = real_np.empty(shape, dtype=object)
            fixed = self.partial.get(name, {})
            for idx in itertools.product(*[range(s) for s in shape]):
                a[idx] = fixed[idx] if idx in fixed else self._rand(name)
            self.values[name] = a
        a = self.values[name]
        assert a.shape == shape, (name, a.shape, shape)
        return a.astype(float)

    def scalar(self, name):
        if name not in self.values:
            fixed = self.partial.get(name, {})
            self.values[name] = fixed[()] if () in fixed else self._rand(name)
        return float(self.values[name])

    @property
    def np(self):
        return real_np


def increasing_faces(src, name, n, first_nonneg=False, upper=None):
    """face positions for the concrete source: strictly increasing dyadic rationals"""
    if name in src.values:
        return
    fixed = getattr(src, 'partial', {}).get(name)
    if fixed:
        src.values[name] = _faces_through(fixed, n, first_nonneg, upper)
        return
    r = src.rng
    x = Fraction(r.randint(0, 3), 2) if first_nonneg else Fraction(r.randint(-6, 6), 2)
    if first_nonneg and r.random() < 0.5:
        x = Fraction(0)
    vals = [x]
    for _ in range(n):
        x = x + Fraction(r.randint(1, 8), r.choice([1, 2, 4]))
        vals.append(x)
    if upper is not None:
        # rescale into [vals[0], upper) keeping dyadic-ness out of the question: use rationals
        span = vals[-1] - vals[0]
        lo = Fraction(1, 8)
        vals = [lo + (v - vals[0]) / span * (Fraction(upper) - lo - Fraction(1, 8)) for v in vals]
    a = real_np.empty((n + 1,), dtype=object)
    for i, v in enumerate(vals):
        a[i] = v
    src.values[name] = a


def _faces_through(fixed, n, first_nonneg, upper):
    """strictly increasing face positions passing through the points fixed by a counter-model"""
    pts = sorted((k[0], v) for k, v in fixed.items() if 0 <= k[0] <= n)
    a = real_np.empty((n + 1,), dtype=object)
    for i in range(n + 1):
        lo = [(k, v) for k, v in pts if k <= i]
        hi = [(k, v) for k, v in pts if k >= i]
        if lo and lo[-1][0] == i:
            a[i] = lo[-1][1]
        elif lo and hi:
            (k0, v0), (k1, v1) = lo[-1], hi[0]
            a[i] = v0 + (v1 - v0) * Fraction(i - k0, k1 - k0)
        elif hi:
            k1, v1 = hi[0]
            if first_nonneg or upper is not None:
                a[i] = v1 * Fraction(i + 1, k1 + 1) if v1 > 0 else v1 - (k1 - i)
            else:
                a[i] = v1 - (k1 - i)
        else:
            k0, v0 = lo[-1]
            if upper is not None:
                a[i] = v0 + (Fraction(upper) - v0) * Fraction(i - k0, n - k0 + 1)
            else:
                a[i] = v0 + (i - k0)
    return a


class AxisMappedSource:
    """view of a source for a lower-dimensional / axis-permuted sibling grid: axis a of the sibling is axis
    axmap[a] of the underlying source (sizes and face-array names are translated; everything else is shared)"""

    def __init__(self, src, axmap):
        self._src = src
        self.axmap = list(axmap)
        self.symbolic = src.symbolic

    def size(self, a):
        return self._src.size(self.axmap[a])

    def _name(self, name):
        if len(name) == 2 and name[0] == 'f' and name[1] in AX and AX.index(name[1]) < len(self.axmap):
            return 'f' + AX[self.axmap[AX.index(name[1])]]
        return name

    def arr(self, name, shape, kind='real'):
        return self._src.arr(self._name(name), shape, kind)

    def scalar(self, name):
        return self._src.scalar(name)

    @property
    def np(self):
        return self._src.np

    @property
    def values(self):
        return _NameMappedDict(self._src.values, self._name)

    def __getattr__(self, k):
        return getattr(self._src, k)


class DecoySource:
    """the same sizes, but every array / scalar under another name: inputs of a DECOY run of a contract's scenario on
    the same mesh, executed before the real one, so that state a function keeps between calls (a cache with an
    incomplete key, a module-level accumulator) would leak other data into the run the clauses are stated about"""

    def __init__(self, src, prefix='~'):
        self._src = src
        self.prefix = prefix
        self.symbolic = src.symbolic

    def size(self, a):
        return self._src.size(a)

    def _name(self, name):
        return self.prefix + name

    def arr(self, name, shape, kind='real'):
        return self._src.arr(self._name(name), shape, kind)

    def scalar(self, name):
        return self._src.scalar(self._name(name))

    @property
    def np(self):
        return self._src.np

    @property
    def values(self):
        return _NameMappedDict(self._src.values, self._name)

    @property
    def constraints(self):
        return _NameMappedDict(self._src.constraints, self._name)

    def __getattr__(self, k):
        return getattr(self._src, k)


class _NameMappedDict:
    def __init__(self, d, fn):
        self.d, self.fn = d, fn

    def __contains__(self, k):
        return self.fn(k) in self.d

    def __getitem__(self, k):
        return self.d[self.fn(k)]

    def __setitem__(self, k, v):
        self.d[self.fn(k)] = v

    def get(self, k, default=None):
        return self.d.get(self.fn(k), default)


def make_mesh(src, grid, uniform=False, facescale=None, facemap=None):
    """mesh of class `grid` satisfying well_formed: symbolic from the spec (contract), concrete via the real
    constructor from the same face arrays.  facescale: per-axis factor applied to the face positions (a second mesh
    in other units over the same face arrays)"""
    info = GRIDS[grid]
    nd = info['nd']
    cls = getattr(pf, grid)
    if not src.symbolic:
        faces = []
        for a in range(nd):
            name = 'f' + AX[a]
            radial = info['radial'] and a == 0
            upper = None
            if grid == 'SphericalGrid3D' and a == 1:
                upper = 3      # theta in (0, pi)
            if grid in ('PolarGrid2D', 'CylindricalGrid3D') and a == 1:
                upper = 6
            if grid == 'SphericalGrid3D' and a == 2:
                upper = 6
            increasing_faces(src, name, src.size(a), first_nonneg=radial, upper=upper)
            fa = src.values[name].astype(float)
            stress = getattr(src, 'unit_stress', None)
            if stress and not (grid in ('PolarGrid2D', 'CylindricalGrid3D') and a == 1) and not (grid == 'SphericalGrid3D' and a in (1, 2)):
                fa = fa * float(stress)        # bounded stand-in only: the same problem in extreme length units
            if facescale is not None:
                fa = fa * float(facescale[a])
            if facemap is not None and facemap[a] is not None:
                fa = facemap[a](fa)
            faces.append(fa)
        return cls(*faces)
    N = [src.size(a) for a in range(nd)]
    np_ = NP
    M = MODS['mesh']
    fs, cs, ss = [], [], []
    for a in range(3):
        if a < nd:
            n = N[a]
            f = src.arr('f' + AX[a], (n + 1,))
            if facescale is not None:
                f = f * facescale[a]
            if facemap is not None and facemap[a] is not None:
                f = facemap[a](f)
            fsnap = f.snap()
            c = SymNDArray.from_fn((n,), (lambda idx, fsnap=fsnap: (fsnap((idx[0],)) + fsnap((I(idx[0]) + 1,))) * R.const(Fraction(1, 2))),
                                   'real', origin='mesh')

            def sz(idx, fsnap=fsnap, n=n):
                i = I(idx[0])
                if CTX.decide(i == 0):
                    return fsnap((I(1),)) - fsnap((I(0),))
                if CTX.decide(i == n + 1):
                    return fsnap((n,)) - fsnap((n - 1,))
                return fsnap((i,)) - fsnap((i - 1,))
            s = SymNDArray.from_fn((n + 2,), sz, 'real', origin='mesh')
        else:
            f = np_.array([0.0])
            c = np_.array([0.0])
            s = np_.array([0.0])
        fs.append(f)
        cs.append(c)
        ss.append(s)
    labels = dict(info['labels'])
    dims = array_from_list(list(N))
    shape = tuple(n + 2 for n in N)
    if nd == 1:
        corners = np_.array([1], dtype=int)
        edges = np_.array([1], dtype=int)
    elif nd == 2:
        Nx, Ny = N
        corners = array_from_list([lin_atom(shape, (I(0), I(0))), lin_atom(shape, (Nx + 1, I(0))),
                                   lin_atom(shape, (I(0), Ny + 1)), lin_atom(shape, (Nx + 1, Ny + 1))])
        edges = np_.array([1], dtype=int)
    else:
        Nx, Ny, Nz = N
        cl = []
        for i in (I(0), Nx + 1):
            for j in (I(0), Ny + 1):
                for k in (I(0), Nz + 1):
                    cl.append(lin_atom(shape, (i, j, k)))
        corners = array_from_list(cl)
        pieces = []
        for i in (I(0), Nx + 1):
            for j in (I(0), Ny + 1):
                pieces.append(SymNDArray.from_fn((Nz,), (lambda idx, i=i, j=j: lin_atom(shape, (i, j, I(idx[0]) + 1))), 'int'))
        for i in (I(0), Nx + 1):
            for k in (I(0), Nz + 1):
                pieces.append(SymNDArray.from_fn((Ny,), (lambda idx, i=i, k=k: lin_atom(shape, (i, I(idx[0]) + 1, k))), 'int'))
        for j in (I(0), Ny + 1):
            for k in (I(0), Nz + 1):
                pieces.append(SymNDArray.from_fn((Nx,), (lambda idx, j=j, k=k: lin_atom(shape, (I(idx[0]) + 1, j, k))), 'int'))
        edges = NP.hstack(pieces)
    m = object.__new__(cls)
    M.MeshStructure.__init__(m, dims, M.CellSize(ss[0], ss[1], ss[2], labels), M.CellLocation(cs[0], cs[1], cs[2], labels),
                             M.FaceLocation(fs[0], fs[1], fs[2], labels), corners, edges)
    return m


def face_shapes(N, nd):
    if nd == 1:
        return [(N[0] + 1,)]
    if nd == 2:
        return [(N[0] + 1, N[1]), (N[0], N[1] + 1)]
    return [(N[0] + 1, N[1], N[2]), (N[0], N[1] + 1, N[2]), (N[0], N[1], N[2] + 1)]


def make_facevar(src, mesh, grid, prefix):
    nd = GRIDS[grid]['nd']
    N = [src.size(a) for a in range(nd)]
    comps = []
    for a, sh in enumerate(face_shapes(N, nd)):
        comps.append(src.arr(prefix + AX[a], sh))
    while len(comps) < 3:
        comps.append(src.np.array([]))
    return pf.FaceVariable(mesh, comps[0], comps[1], comps[2])


def cell_shape_ghost(N, nd):
    return tuple(N[a] + 2 for a in range(nd))


class RawCell:
    """stand-in for a CellVariable where only `.domain` and `._value` (incl. ghosts, arbitrary) are read"""
    def __init__(self, domain, value):
        self.domain = domain
        self._value = value


def make_rawcell(src, mesh, grid, name):
    nd = GRIDS[grid]['nd']
    N = [src.size(a) for a in range(nd)]
    return RawCell(mesh, src.arr(name, cell_shape_ghost(N, nd)))


# ------------------------------------------------------------------------------------------------
#  evaluation of symbolic results at concrete sizes

class Env:
    def __init__(self, sizes, values):
        self.sizes = dict(zip(SIZE_NAMES, sizes))
        self.values = values

    def int_atom(self, a):
        if isinstance(a, Lin):
            shape = [self._int(s) for s in a.shape]
            idx = [self._int(i) for i in a.idx]
            lin = 0
            for s, i in zip(shape, idx):
                lin = lin * s + i
            return lin
        return self.sizes[a]

    def _int(self, p):
        from .reals import _eval_int
        return _eval_int(p, self)

    def var(self, name, idx):
        if name == 'pi':
            import math
            return Fraction(math.pi)
        v = self.values[name]
        if isinstance(v, real_np.ndarray):
            return v[tuple(idx)]
        return v


@contextlib.contextmanager
def concrete_sizes(sizes):
    """assume Nx = .. etc. so that every integer condition is decided"""
    conds = [IExpr.sym(n) == int(v) for n, v in zip(SIZE_NAMES, sizes)]
    k = CTX.push(conds)
    try:
        yield
    finally:
        CTX.pop(k)


def eval_scalar(v, env):
    if isinstance(v, (R, B)):
        try:
            return evaluate(v, env)
        except KeyError:
            return SKIP          # depends on an uninterpreted quantity (solver output, opaque reduction)
    if isinstance(v, IExpr):
        from .reals import _eval_int
        return Fraction(_eval_int(v, env))
    if isinstance(v, ICond):
        from .reals import _eval_icond
        return _eval_icond(v, env)
    if isinstance(v, bool):
        return v
    return frac_of_float(v)


def concretize_array(arr, env, cellshape=None):
    """numpy object array of Fractions (NAN for 0/0 etc.) of a symbolic array under concrete sizes.
    cellshape: for 1-D vectors indexed by cell ids of an nd grid, the grid-with-ghosts shape"""
    from .reals import _eval_int
    if cellshape is not None and arr.ndim == 1 and len(cellshape) > 1:
        shp = tuple(_eval_int(I(s), env) for s in cellshape)
        a = real_np.empty(shp, dtype=object)
        for idx in itertools.product(*[range(s) for s in shp]):
            a[idx] = eval_scalar(arr.at((lin_atom(cellshape, tuple(I(i) for i in idx)),)), env)
        return a.reshape(-1)
    if arr.blocks is not None and arr.buf.state is None:
        out = []
        for b in arr.blocks:
            shp = [_eval_int(s, env) for s in b.shape]
            if b.scalar:
                v = eval_scalar(b.fn(()), env)
                out.extend([v] * shp[0])
                continue
            for idx in itertools.product(*[range(s) for s in shp]):
                out.append(eval_scalar(b.fn(tuple(I(i) for i in idx)), env))
        a = real_np.empty((len(out),), dtype=object)
        for i, v in enumerate(out):
            a[i] = v
        return a
    shp = tuple(_eval_int(s, env) for s in arr.shape)
    a = real_np.empty(shp, dtype=object)
    for idx in itertools.product(*[range(s) for s in shp]):
        a[idx] = eval_scalar(arr.at(tuple(I(i) for i in idx)), env)
    return a


def concretize_sparse(M, env):
    from .reals import _eval_int
    n = _eval_int(M.shape[0], env)
    m = _eval_int(M.shape[1], env)
    D = real_np.empty((n, m), dtype=object)
    D[:, :] = Fraction(0)
    for f in M.families:
        shp = [_eval_int(s, env) for s in f.shape]
        for p in itertools.product(*[range(s) for s in shp]):
            pp = tuple(I(i) for i in p)
            r = _eval_int(I(f.row(pp)), env)
            c = _eval_int(I(f.col(pp)), env)
            try:
                v = evaluate(f.coef * R.of(f.val(pp)), env)
            except KeyError:
                D[r, c] = SKIP       # opaque reduction over a symbolic-length array (np.max in the corner rows)
                continue
            if D[r, c] is SKIP:
                continue
            D[r, c] = (D[r, c] + v) if (D[r, c] is not NAN and v is not NAN) else NAN
    return D


class _Skip:
    def __repr__(self):
        return 'SKIP'


SKIP = _Skip()


def compare(symv, realv, tol=1e-9):
    """exact where the symbolic value is rational and the real one is finite; NaN must match non-finite"""
    import math
    if symv is SKIP:
        return True
    if symv is NAN:
        return not math.isfinite(float(realv))
    if isinstance(symv, bool):
        return bool(realv) == symv
    rv = float(realv)
    if not math.isfinite(rv):
        return False
    sv = float(symv)
    return abs(sv - rv) <= tol * max(1.0, abs(sv), abs(rv))


def compare_arrays(sym, real, what=''):
    real = real_np.asarray(real)
    if sym.shape != real.shape:
        return ['%s: shape %s vs real %s' % (what, sym.shape, real.shape)]
    bad = []
    for idx in itertools.product(*[range(s) for s in sym.shape]):
        if not compare(sym[idx], real[idx]):
            bad.append('%s%s: model %s vs real %r' % (what, list(idx), sym[idx], real[idx]))
            if len(bad) > 5:
                break
    return bad
