"""C10 grid geometry"""
from .common import jobs_for
LEVEL = 'proof'
LEVEL_TEXT = 'the real constructors of all 9 grid classes are traced in both forms (symbolic face arrays; symbolic N and L) and the full representation invariant well_formed(mesh) is proved field by field for a symbolic index; cellvolume is proved equal to the geometric cell volume per cell and positive; cell_numbers is proved to be the C-order cell index'
LEVEL_NOTE = 'sum of cell volumes = domain volume follows from the per-cell clause by telescoping (Lean lemma telescope); the corners/edges bookkeeping arrays (mixed basic/advanced indexing) are covered by a bounded stand-in only (mesh.corners_edges/..., labelled bounded); cos uninterpreted with monotonicity on [0,pi]; SphericalGrid3D per-cell volume is a recorded finding'
NOT_MACHINE_CHECKED = ['sum of the cell volumes = domain volume: telescoping of the proved per-cell closed forms (Lean lemma telescope), correspondence by inspection', 'cos is uninterpreted: the geometric volume is stated with the same cos applications']
MODULES = ['contracts.mesh']
TRUSTED = ['A1', 'A2', 'A5', 'A6', 'UF']


def jobs(tier):
    return jobs_for('C10', MODULES, tier)


def extra(tier, seed):
    from fvverif.lean import lemma_status
    ok, detail = lemma_status(['telescope'], rebuild=(tier == 'thorough'))
    return [('lean lemma telescope (per-cell volumes sum to the domain volume)', ok, 'lean:' + detail)]
