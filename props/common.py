"""helpers for the per-property job lists"""
from fvverif.runner import obligations_of


def jobs_for(prop, modules, tier, quick_skip=()):
    jobs = obligations_of(modules, prop)
    if tier == 'quick':
        jobs = [j for j in jobs if (j[1], j[2]) not in quick_skip and j[1] not in quick_skip]
    return jobs
