"""C01 conservation"""
from .common import jobs_for
LEVEL = 'proof'
LEVEL_TEXT = "interior-face flux cancellation (volume-weighted, with the real cellvolume), locality of face coefficients, row/column structure and 'total = sum of axis parts' are discharged per axis for a symbolic interior cell: one obligation covers every N, spacing, coefficient and field. 45 builders x 9 grids."
LEVEL_NOTE = 'whole-domain statement (sum over cells telescopes to boundary faces) follows from the per-cell clauses by the separability/telescoping argument of DESIGN.md 5/C01 (not machine-checked in this tier); solver-level corollaries via the solvePDE contract (C04); floating point treated as real (A1); SphericalGrid3D is a recorded finding'
MODULES = ['contracts.ops', 'contracts.canaries']
TRUSTED = ['A1', 'A2', 'A5', 'A6', 'UF']


def jobs(tier):
    return jobs_for('C01', MODULES, tier)


def extra(tier, seed):
    from fvverif.lean import lemma_status
    ok, detail = lemma_status(['flux_form_sum', 'telescope', 'invariant_iterate'], rebuild=(tier == 'thorough'))
    return [('lean lemmas flux_form_sum/telescope (per-cell flux form => domain sum changes only through boundary faces)', ok, 'lean:' + detail)]
