"""helpers for the per-property job lists"""
import importlib
from fvverif.runner import obligations_of


def jobs_for(prop, modules, tier, quick_skip=()):
    modules = list(modules) + [m for m in ('contracts.canaries',) if m not in modules]
    jobs = obligations_of(modules, prop)
    if tier == 'quick':
        keep = []
        for j in jobs:
            cls = getattr(importlib.import_module(j[0]), j[1])
            if getattr(cls, 'quick', True) is False:
                continue
            if (j[1], j[2]) in quick_skip or j[1] in quick_skip:
                continue
            keep.append(j)
        jobs = keep
    return jobs
