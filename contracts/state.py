"""C09 (no stale state) and the state-related parts of C14: the representation invariant of CellVariable

    Inv(cv):  cv._value is a TrackedArray of shape dims+2, and  IF no dirty bit is set
              (not cv.BCs.modified and not cv.value.modified)  THEN
              (a) every face-ghost entry of cv._value satisfies the boundary relation of cv.BCs' CURRENT coefficients
                  (resp. the periodic wrap), and
              (b) cv._BCsTerm equals boundaryConditionsTerm of the CURRENT coefficients / periodic flags.

is established by the constructor, re-established by apply_BCs / solvePDE / solveExplicitPDE from every pre-state
(clean, value-dirty, BC-dirty, both; stale ghost values and stale cached boundary term being arbitrary symbolic
data), every mutator of the edit alphabet raises a dirty bit that every variable depending on the written buffer
sees, and copies / arithmetic results satisfy Inv and share nothing with their operands.  The statement of C09 then
follows by induction on the history: at a solve either a dirty bit is set (the solver re-applies the BCs first) or
Inv makes cache and ghosts equal to what a freshly constructed variable has."""
import itertools
from copy import deepcopy
from .common import *
from .bc import make_bc, boundary_cell, SIDES, robin_residual, ghost_denominator, side_shape
from .solver import make_cellvar, _term_zoo
from fvverif import trace as T
from fvverif.arrays import SymNDArray

STATE_GRIDS = ('Grid1D', 'Grid2D', 'PolarGrid2D', 'Grid3D', 'SphericalGrid3D')
PRESTATES = ('clean', 'value-dirty', 'bc-dirty', 'both-dirty', 'periodic-toggled')


def current_coefs(w, cv):
    """the coefficient arrays the BC object holds NOW, in the layout used by contracts.bc"""
    coefs = {}
    for a in range(w.nd):
        for s, side in enumerate(SIDES[a]):
            face = getattr(cv.BCs, side)
            for cn in 'abc':
                coefs[(a, s, cn)] = getattr(face, cn)
    return coefs


def current_pattern(w, cv):
    pat = ''
    for a in range(w.nd):
        lo, hi = getattr(cv.BCs, SIDES[a][0]), getattr(cv.BCs, SIDES[a][1])
        pat += 'l' if lo.periodic else ('r' if hi.periodic else 'n')
    return pat


def make_prestate(w, name, kind):
    """a CellVariable in the given dirty-state; stale data are (functions of) independent symbolic arrays"""
    pat = 'n' * w.nd
    cv, _ = make_cellvar(w, name, pat)
    cv.apply_BCs()                # clean state (flags reset); proved Inv-establishing by ApplyBCs_* below
    if kind in ('value-dirty', 'both-dirty'):
        cv.value = w.array(name + '_newvals', tuple(w.N))
    if kind in ('bc-dirty', 'both-dirty'):
        side = SIDES[w.nd - 1][1]           # the upper face of the last axis (right / top / front)
        getattr(cv.BCs, side).c = w.array(name + '_newc', side_shape(w, w.nd - 1))
        cv.BCs.left.a[:] = w.array(name + '_newa', side_shape(w, 0))
    if kind == 'cleared-by-sharer':
        # flags clean but cached term and ghosts STALE: a second variable sharing the BC object was re-synchronised after
        # an edit of the shared BCs (that clears the shared dirty bits).  Reachable state; apply_BCs must repair it.
        cv2 = cel.CellVariable(w.mesh, w.array(name + '_sharer', tuple(w.N)), cv.BCs)
        cv.apply_BCs()
        side = SIDES[w.nd - 1][1]
        getattr(cv.BCs, side).c = w.array(name + '_newc', side_shape(w, w.nd - 1))
        cv.BCs.left.a[:] = w.array(name + '_newa', side_shape(w, 0))
        cv2.apply_BCs()
    if kind == 'periodic-toggled':
        if not GRIDS[w.grid]['radial'] or w.nd > 1:
            getattr(cv.BCs, SIDES[w.nd - 1][0]).periodic = True
        else:
            cv.BCs.left.c = w.array(name + '_newc', side_shape(w, 0))
    return cv


def is_clean(cv):
    return (not cv.BCs.modified) and (not cv.value.modified)


def inv_claims(w, cv, P, part, tag, force=False):
    """content part of Inv(cv) on the side part=(a, s), only if cv is clean (or force)"""
    if not force and not is_clean(cv):
        return []
    if part in ('flags', 'interior', 'rows'):
        return []
    a, s = part
    out = []
    if not hasattr(cv, '_BCsTerm'):
        return [('%s:owns_cached_boundary_term' % tag, (B.const(False) if w.symbolic else False))]
    coefs = current_coefs(w, cv)
    pat = current_pattern(w, cv)
    Q, G = boundary_cell(w, P, a, s)
    v = cv._value
    vg, vq = w.at(v, G), w.at(v, Q)
    psi = w.rawcell('psi_' + tag)._value if not hasattr(w, '_psi') else w._psi
    w._psi = psi
    M, RHS = cv._BCsTerm
    row = w.apply(M, psi, G) - w.vec(RHS, G)
    if (a, s) == (0, 0):
        # the cached boundary term has NO equation in interior cells (terms are accumulated onto a copy of it)
        out.append(('%s:cached_term_has_no_interior_rows' % tag, w.eq(w.apply(M, psi, P) - w.vec(RHS, P), 0)))
    pg, pq = w.at(psi, G), w.at(psi, Q)
    if pat[a] == 'n':
        lo, hi = (vg, vq) if s == 0 else (vq, vg)
        den = ghost_denominator(w, coefs, a, s, Q)
        resid = robin_residual(w, coefs, a, s, Q, lo, hi)
        plo, phi_ = (pg, pq) if s == 0 else (pq, pg)
        rowspec = robin_residual(w, coefs, a, s, Q, plo, phi_) * (-1 if s == 0 else 1)
        if w.symbolic:
            out.append(('%s:ghost_satisfies_current_bcs[%s]' % (tag, SIDES[a][s]), (R.of(den) != 0).implies(R.of(resid) == 0)))
        elif abs(den) > 1e-6:
            w.scale = 1e4
            out.append(('%s:ghost_satisfies_current_bcs[%s]' % (tag, SIDES[a][s]), w.eq(resid, 0.0)))
        out.append(('%s:cached_term_is_term_of_current_bcs[%s]' % (tag, SIDES[a][s]), w.eq(row, rowspec)))
    else:
        opp = list(Q)
        opp[a] = w.N[a] if s == 0 else 1
        out.append(('%s:ghost_wraps[%s]' % (tag, SIDES[a][s]), w.eq(vg, w.at(v, tuple(opp)))))
        first = list(Q); first[a] = 1
        last = list(Q); last[a] = w.N[a]
        g0 = list(Q); g0[a] = 0
        g1 = list(Q); g1[a] = w.N[a] + 1
        p0, p1, pN, pN1 = (w.at(psi, tuple(x)) for x in (g0, first, last, g1))
        cs = getattr(w.mesh.cellsize, '_' + AX[a])
        h1, hN = w.at(cs, (0,)), w.at(cs, (w.N[a] + 1,))
        spec = (p0 + p1 - pN - pN1) if s == 0 else hN * ((pN1 - pN) / hN - (p1 - p0) / h1)
        out.append(('%s:cached_term_is_periodic_term[%s]' % (tag, SIDES[a][s]), w.eq(row, spec)))
    return out


class _StateOb(Ob):
    props = ('C09',)
    grids = STATE_GRIDS
    pre = 'clean'

    def parts(self, w):
        return ['flags'] + [(a, s) for a in range(w.nd) for s in (0, 1)]

    def flag(self, w, ok):
        return B.const(bool(ok)) if w.symbolic else bool(ok)


class CtorEstablishesInv(_StateOb):
    name = 'CellVariable.__init__/establishes_Inv'
    props = ('C09', 'C03')
    style = 'bc-passed'

    def setup(self, w):
        if self.style == 'bc-passed':
            cv, _ = make_cellvar(w, 'phi0')
        elif self.style == 'defaulted':
            cv, _ = make_cellvar(w, 'phi0', bc=False)
        else:
            BC, _ = make_bc(w, 'n' * w.nd, prefix='phi0_')
            cv = cel.CellVariable(w.mesh, w.scalar('c0'), BC)
        return dict(cv=cv)

    def claims(self, w, S, P, part):
        cv = S['cv']
        if part == 'flags':
            ok = (not cv.value.modified) and isinstance(cv._value, (T.SymTrackedArray if w.symbolic else utl.TrackedArray)) \
                and hasattr(cv, '_BCsTerm')
            # make_bc assigned coefficient arrays, so the BC object's dirty bits were set before the constructor ran:
            # the constructor must leave them alone (another variable sharing the BC object may still need them)
            return [('value_clean_tracked_and_cached', self.flag(w, ok)),
                    ('constructor_leaves_BC_dirty_bits_alone', self.flag(w, bool(cv.BCs.modified) or self.style == 'defaulted'))]
        # the constructor leaves the BC object's own dirty bits alone; ghosts and cache are those of the current BCs
        return inv_claims(w, cv, P, part, 'cv', force=True)


class CtorEstablishesInvDefaulted(CtorEstablishesInv):
    name = 'CellVariable.__init__/establishes_Inv(BCs defaulted)'
    style = 'defaulted'


class CtorEstablishesInvScalar(CtorEstablishesInv):
    name = 'CellVariable.__init__/establishes_Inv(scalar value)'
    style = 'scalar'


class MutatorsRaiseDirtyBit(_StateOb):
    """every supported edit makes (BCs.modified or value.modified) true -- for the edited variable and for a second
    variable that shares the BC object"""
    name = 'edit_alphabet/raises_dirty_bit'
    grids = ('Grid1D', 'Grid2D', 'Grid3D')

    def region(self, w):
        return []

    def points(self, w):
        return [()]

    def parts(self, w):
        return [None]

    def setup(self, w):
        res = {}
        nd = w.nd
        faces = [s for a in range(nd) for s in SIDES[a]]

        def fresh():
            cv, _ = make_cellvar(w, 'phi0')
            cv2 = cel.CellVariable(w.mesh, w.array('other', tuple(w.N)), cv.BCs)
            cv.apply_BCs()        # reach a clean state (the coefficient assignments above left the BC bits set)
            return cv, cv2

        def observe(label, edit):
            cv, cv2 = fresh()
            pre = is_clean(cv) and is_clean(cv2)
            edit(cv, cv2)
            res[label] = (pre, not is_clean(cv), (not cv2.BCs.modified) is False or 'value' in label or 'update' in label)
        for f in faces:
            for cn in 'abc':
                observe('assign %s.%s' % (f, cn),
                        lambda cv, cv2, f=f, cn=cn: setattr(getattr(cv.BCs, f), cn, w.array('n' + f + cn, tuple(getattr(getattr(cv.BCs, f), cn).shape))))
                observe('slice-assign %s.%s[...]' % (f, cn),
                        lambda cv, cv2, f=f, cn=cn: getattr(getattr(cv.BCs, f), cn).__setitem__(Ellipsis, w.scalar('s' + f + cn)))
                observe('element-assign %s.%s[0..]' % (f, cn),
                        lambda cv, cv2, f=f, cn=cn: getattr(getattr(cv.BCs, f), cn).__setitem__((0,) * getattr(getattr(cv.BCs, f), cn).ndim, w.scalar('e' + f + cn)))
            def aug(cv, cv2, f=f):
                # Python's `face.c *= s`: read the property, in-place operator, assign the result back through the setter
                face = getattr(cv.BCs, f)
                x = face.c
                x *= w.scalar('aug' + f)
                face.c = x
            observe('augmented %s.c *= scalar' % f, aug)

            def aug2(cv, cv2, f=f):
                face = getattr(cv.BCs, f)
                x = face.a
                x += w.scalar('auga' + f)
                face.a = x
            observe('augmented %s.a += scalar' % f, aug2)
            observe('%s.fixedValue' % f, lambda cv, cv2, f=f: getattr(cv.BCs, f).fixedValue(w.scalar('fv' + f)))
            observe('%s.fixedGradient' % f, lambda cv, cv2, f=f: getattr(cv.BCs, f).fixedGradient(w.scalar('fg' + f)))
            observe('%s.defaultNoFlux' % f, lambda cv, cv2, f=f: getattr(cv.BCs, f).defaultNoFlux())
            observe('%s.newtonCooling' % f, lambda cv, cv2, f=f: getattr(cv.BCs, f).newtonCooling(w.scalar('k' + f), w.scalar('h' + f), w.scalar('T' + f)))
            observe('%s.periodic = True' % f, lambda cv, cv2, f=f: setattr(getattr(cv.BCs, f), 'periodic', True))
            observe('%s.periodic = False' % f, lambda cv, cv2, f=f: setattr(getattr(cv.BCs, f), 'periodic', False))
        observe('value = array', lambda cv, cv2: setattr(cv, 'value', w.array('nv', tuple(w.N))))
        observe('value[...] = scalar', lambda cv, cv2: cv.value.__setitem__(Ellipsis, w.scalar('sv')))
        observe('value[0..] = scalar', lambda cv, cv2: cv.value.__setitem__((0,) * nd, w.scalar('ev')))
        observe('value[0:1] = scalar', lambda cv, cv2: cv.value.__setitem__(slice(0, 1), w.scalar('lv')))
        def augv(cv, cv2):
            x = cv.value
            x *= w.scalar('augv')
            cv.value = x
        observe('augmented value *= scalar', augv)
        observe('update_value(other)', lambda cv, cv2: cv.update_value(cv2))
        return dict(res=res)

    def claims(self, w, S, P, part=None):
        out = []
        for label, (pre, dirty, seen_by_sharer) in S['res'].items():
            out.append(('dirty_after[%s]' % label, self.flag(w, pre and dirty)))
            out.append(('sharer_sees[%s]' % label, self.flag(w, seen_by_sharer)))
        return out


def _mk_state_classes():
    for pre in PRESTATES:
        tag = pre.replace('-', '_')

        class ApplyBCs(_StateOb):
            name = 'CellVariable.apply_BCs/establishes_Inv{%s}' % pre
            props = ('C09', 'C03')

            def setup(self, w, pre=pre):
                cv = make_prestate(w, 'phi0', pre)
                interior_before = w.np.copy(cv.value)
                cv.apply_BCs()
                return dict(cv=cv, before=interior_before)

            def parts(self, w):
                return ['flags', 'interior'] + [(a, s) for a in range(w.nd) for s in (0, 1)]

            def claims(self, w, S, P, part):
                cv = S['cv']
                if part == 'flags':
                    return [('clean_after_apply', self.flag(w, is_clean(cv) and hasattr(cv, '_BCsTerm')))]
                if part == 'interior':
                    return [('interior_unchanged', w.eq(w.at(cv._value, P), w.at(S['before'], tuple(p - 1 for p in P))))]
                return inv_claims(w, cv, P, part, 'cv')
        ApplyBCs.__name__ = 'ApplyBCs_' + tag

        class SolveFromState(_StateOb):
            """solvePDE from this pre-state hands the solver the system a fresh variable (same interior, same BCs)
            would: boundary rows of the CURRENT BCs + terms; afterwards Inv holds"""
            name = 'solvePDE/from_state_equals_fresh{%s}' % pre
            props = ('C09', 'C04', 'C03')

            def parts(self, w):
                return ['rows', 'flags'] + [(a, s) for a in range(w.nd) for s in (0, 1)]

            def region(self, w):
                return [c for a in range(w.nd) for c in (I(w.P[a]) >= 0, I(w.P[a]) <= w.N[a] + 1)]

            def points(self, w):
                return list(itertools.product(*[range(0, n + 2) for n in w.N]))

            def setup(self, w, pre=pre):
                cv = make_prestate(w, 'phi0', pre)
                z = _term_zoo(w)
                rec = {}

                def solver(M, RHS):
                    rec['M'], rec['RHS'] = M, RHS
                    if w.symbolic:
                        return T.SPSOLVE(M, RHS)
                    from scipy.sparse.linalg import spsolve
                    return spsolve(M, RHS)
                # what a freshly constructed variable with the same interior and the same BCs would use
                fresh_M, fresh_RHS = bnd.boundaryConditionsTerm(cv.BCs)
                pde.solvePDE(cv, [-z['Md'], z['Ms'], z['Rg']], externalsolver=solver)
                return dict(cv=cv, rec=rec, fM=fresh_M, fRHS=fresh_RHS, z=z, psi=w.rawcell('psi')._value)

            def claims(self, w, S, P, part):
                cv = S['cv']
                if part == 'flags':
                    return [('clean_after_solve', self.flag(w, is_clean(cv)))]
                if part == 'rows':
                    nb = 0
                    for a in range(w.nd):
                        onb = CTX.decide((I(P[a]) == 0) | (I(P[a]) == w.N[a] + 1)) if w.symbolic else (P[a] in (0, w.N[a] + 1))
                        nb += 1 if onb else 0
                    if nb > 1:
                        return []
                    psi, z, rec = S['psi'], S['z'], S['rec']
                    lhs = w.apply(rec['M'], psi, P) - w.vec(rec['RHS'], P)
                    want = (w.apply(S['fM'], psi, P) - w.vec(S['fRHS'], P) - w.apply(z['Md'], psi, P)
                            + w.apply(z['Ms'], psi, P) - w.vec(z['Rg'], P))
                    return [('system_is_fresh_system', w.eq(lhs, want))]
                # interior rows / ghost layer: only face cells are addressed by inv_claims
                if w.symbolic:
                    if not all(CTX.decide((I(P[a]) >= 1) & (I(P[a]) <= w.N[a])) for a in range(w.nd)):
                        return []
                elif not all(1 <= P[a] <= w.N[a] for a in range(w.nd)):
                    return []
                return inv_claims(w, cv, P, part, 'cv')
        SolveFromState.__name__ = 'SolveFromState_' + tag

        class ExplicitFromState(_StateOb):
            """solveExplicitPDE from this pre-state: the result satisfies Inv with the (shared) BCs, owns a cached
            boundary term (so solvePDE can use it), and the input is left in an Inv state"""
            name = 'solveExplicitPDE/from_state{%s}' % pre
            props = ('C09', 'C12', 'C03')

            def setup(self, w, pre=pre):
                cv = make_prestate(w, 'phi0', pre)
                dt = w.scalar('dt', 'pos')
                from .solver import npshim_reshape_flat
                RHS = w.array('rhs', w.ghost_shape())
                flat = RHS.ravel() if not w.symbolic else npshim_reshape_flat(w, RHS)
                new = pde.solveExplicitPDE(cv, dt, flat)
                usable = True
                try:
                    z = _term_zoo(w)
                    probe = deepcopy(new) if False else new
                    usable = hasattr(new, '_BCsTerm')
                except Exception:       # noqa: BLE001
                    usable = False
                return dict(cv=cv, new=new, usable=usable)

            def claims(self, w, S, P, part):
                cv, new = S['cv'], S['new']
                if part == 'flags':
                    return [('result_clean_and_owns_boundary_term', self.flag(w, is_clean(new) and S['usable'])),
                            ('input_left_clean', self.flag(w, is_clean(cv)))]
                return inv_claims(w, new, P, part, 'new') + inv_claims(w, cv, P, part, 'old')
        ExplicitFromState.__name__ = 'ExplicitFromState_' + tag

        class CopyFromState(_StateOb):
            """copy(): equal interior and BC coefficients, shares no buffer / BC object, satisfies Inv"""
            name = 'CellVariable.copy/independent_and_Inv{%s}' % pre
            props = ('C09', 'C14')

            def parts(self, w):
                return ['flags', 'interior'] + [(a, s) for a in range(w.nd) for s in (0, 1)]

            def setup(self, w, pre=pre):
                cv = make_prestate(w, 'phi0', pre)
                c = cv.copy()
                return dict(cv=cv, c=c)

            def claims(self, w, S, P, part):
                cv, c = S['cv'], S['c']
                if part == 'flags':
                    ok = c is not cv and c.BCs is not cv.BCs and all(
                        getattr(c.BCs, f) is not getattr(cv.BCs, f) for a in range(w.nd) for f in SIDES[a])
                    if w.symbolic:
                        bufs_c = {c._value.buf.id} | {getattr(getattr(c.BCs, f), cn).buf.id for a in range(w.nd) for f in SIDES[a] for cn in 'abc'}
                        bufs_o = {cv._value.buf.id} | {getattr(getattr(cv.BCs, f), cn).buf.id for a in range(w.nd) for f in SIDES[a] for cn in 'abc'}
                        ok = ok and not (bufs_c & bufs_o)
                    else:
                        ok = ok and not w.np.shares_memory(c._value, cv._value)
                    return [('shares_nothing', self.flag(w, ok)),
                            ('periodic_flags_equal', self.flag(w, current_pattern(w, c) == current_pattern(w, cv)))]
                if part == 'interior':
                    return [('equal_interior', w.eq(w.at(c._value, P), w.at(cv._value, P)))]
                return inv_claims(w, c, P, part, 'copy')
        CopyFromState.__name__ = 'CopyFromState_' + tag

        for cls in (ApplyBCs, SolveFromState, ExplicitFromState, CopyFromState):
            cls.__module__ = __name__
            cls.__qualname__ = cls.__name__
            cls.pre = pre
            globals()[cls.__name__] = cls


_mk_state_classes()


class ApplyBCs_cleared_by_sharer(_StateOb):
    """apply_BCs() re-establishes Inv for its receiver UNCONDITIONALLY -- also when the dirty bits are clear although
    cache and ghosts are stale (another variable sharing the BC object was re-synchronised after an edit)"""
    name = 'CellVariable.apply_BCs/establishes_Inv{cleared-by-sharer}'
    props = ('C09', 'C03')
    grids = ('Grid1D', 'Grid2D', 'Grid3D')

    def setup(self, w):
        cv = make_prestate(w, 'phi0', 'cleared-by-sharer')
        cv.apply_BCs()
        return dict(cv=cv)

    def parts(self, w):
        return ['flags'] + [(a, s) for a in range(w.nd) for s in (0, 1)]

    def claims(self, w, S, P, part):
        cv = S['cv']
        if part == 'flags':
            return [('clean_after_apply', self.flag(w, is_clean(cv) and hasattr(cv, '_BCsTerm')))]
        return inv_claims(w, cv, P, part, 'cv')


class SharedBCsOtherVariable(_StateOb):
    """two variables sharing one BoundaryConditions object: after an edit of the shared BCs and a re-synchronisation
    of ONE of them (apply_BCs / solve), Inv must still hold for the OTHER one"""
    name = 'shared_BCs/other_variable_keeps_Inv'
    grids = ('Grid1D', 'Grid2D')

    def setup(self, w):
        cv, _ = make_cellvar(w, 'phi0')
        cv2 = cel.CellVariable(w.mesh, w.array('other', tuple(w.N)), cv.BCs)
        cv.apply_BCs()
        cv.BCs.right.c = w.array('newc', side_shape(w, 0))
        cv.apply_BCs()
        return dict(cv=cv, cv2=cv2)

    def claims(self, w, S, P, part):
        if part == 'flags':
            return []
        return inv_claims(w, S['cv2'], P, part, 'other') + inv_claims(w, S['cv'], P, part, 'cv')


class UpdateValue(_StateOb):
    """update_value(other): the receiver takes the other's cell values (incl. ghosts) into ITS OWN storage: no
    buffer is shared afterwards, the other variable is not written, the receiver is marked dirty"""
    name = 'CellVariable.update_value/copies_into_own_storage'
    props = ('C09', 'C14')
    grids = ('Grid1D', 'Grid2D', 'Grid3D')

    def parts(self, w):
        return ['flags', 'interior']

    def setup(self, w):
        cv, _ = make_cellvar(w, 'phi0')
        other, _ = make_cellvar(w, 'oth')
        cv.apply_BCs()
        other.apply_BCs()
        before_other = w.np.copy(other._value)
        n0 = len(CTX.writes)
        ob_id = other._value.buf.id if w.symbolic else None
        cv.update_value(other)
        wrote_other = any(x[0] == ob_id for x in CTX.writes[n0:]) if w.symbolic else False
        return dict(cv=cv, other=other, before=before_other, wrote_other=wrote_other)

    def claims(self, w, S, P, part):
        cv, other = S['cv'], S['other']
        if part == 'flags':
            if w.symbolic:
                sep = cv._value.buf.id != other._value.buf.id
            else:
                sep = not w.np.shares_memory(cv._value, other._value)
            ok = sep and (not S['wrote_other']) and (not is_clean(cv)) and is_clean(other)
            return [('own_storage_dirty_other_untouched', self.flag(w, ok))]
        return [('values_taken_over', w.eq(w.at(cv._value, P), w.at(S['before'], P))),
                ('other_unchanged', w.eq(w.at(other._value, P), w.at(S['before'], P)))]


def _mk_pair_classes():
    """{Inv(cv) and Inv(cv')} solve(cv) {Inv(cv')} for a second variable cv' DERIVED from cv (copy(), arithmetic
    result) or from which cv was derived: solving one of them must not disturb the cached boundary term / ghost layer
    of the other (e.g. through storage the two still share).  The terms include vector terms and a (matrix, vector)
    pair, so an in-place accumulation onto shared storage would show."""
    for how in ('copy', 'arithmetic'):
        for direction in ('solve_original', 'solve_derived'):
            class PairKeepsInv(_StateOb):
                name = 'solvePDE/derived_variable_keeps_Inv{%s,%s}' % (how, direction)
                props = ('C09', 'C14', 'C04')
                grids = ('Grid1D', 'Grid2D', 'Grid3D')

                def setup(self, w, how=how, direction=direction):
                    cv = make_prestate(w, 'phi0', 'clean')
                    other = cv.copy() if how == 'copy' else (cv * 2.0)
                    z = _term_zoo(w)
                    dt = w.scalar('dt', 'pos')
                    solved, kept = (cv, other) if direction == 'solve_original' else (other, cv)
                    Mt, Rt = src_.transientTerm(solved, dt, 1.0)
                    before = w.np.copy(kept._value)
                    pde.solvePDE(solved, [(Mt, Rt), -z['Md'], z['Ms'], z['Rg']])
                    return dict(kept=kept, solved=solved, before=before)

                def parts(self, w):
                    return ['flags', 'interior'] + [(a, s) for a in range(w.nd) for s in (0, 1)]

                def claims(self, w, S, P, part):
                    kept = S['kept']
                    if part == 'flags':
                        return [('other_variable_still_clean', self.flag(w, is_clean(kept) and hasattr(kept, '_BCsTerm')))]
                    if part == 'interior':
                        return [('other_variable_values_untouched', w.eq(w.at(kept._value, P), w.at(S['before'], P)))]
                    return inv_claims(w, kept, P, part, 'other')
            PairKeepsInv.__name__ = 'PairKeepsInv_%s_%s' % (how, direction)
            PairKeepsInv.__qualname__ = PairKeepsInv.__name__
            PairKeepsInv.__module__ = __name__
            globals()[PairKeepsInv.__name__] = PairKeepsInv


_mk_pair_classes()


def _derive(w, cv, how):
    from .solver import npshim_reshape_flat
    if how == 'copy':
        return cv.copy()
    if how == 'arithmetic':
        return cv * 2.0
    if how == 'funceval':
        return cel.funceval((lambda x: x + 1.0), cv)
    if how in ('explicit-result', 'explicit-input'):
        dt = w.scalar('dt_e', 'pos')
        RHS = w.array('rhs_e', w.ghost_shape())
        flat = RHS.ravel() if not w.symbolic else npshim_reshape_flat(w, RHS)
        new = pde.solveExplicitPDE(cv, dt, flat)
        return new if how == 'explicit-result' else cv
    if how == 'updated':
        r, _ = make_cellvar(w, 'upd')
        r.apply_BCs()
        r.update_value(cv)
        return r
    raise KeyError(how)


def _mk_derived_classes():
    """Objects produced BY the library (copy, arithmetic / funceval result, result and input of solveExplicitPDE, target
    of update_value) must keep responding to the edit protocol: after a further edit of their boundary coefficients or
    values, solvePDE uses the system a freshly constructed variable with the same visible state would use (no hidden
    state such as a cached term that is never rebuilt), from a clean AND from a BC-dirty original."""
    for how in ('copy', 'arithmetic', 'funceval', 'explicit-result', 'explicit-input', 'updated'):
        for pre in ('clean', 'bc-dirty'):
            for edit in ('bc-edit', 'value-edit', 'no-edit'):
                if pre == 'clean' and edit == 'no-edit' and how in ('copy', 'arithmetic'):
                    continue        # covered by solvePDE/derived_variable_keeps_Inv

                class Derived(_StateOb):
                    name = 'solvePDE/derived_object_then_edit_equals_fresh{%s,%s,%s}' % (how, pre, edit)
                    props = ('C09', 'C14') if how in ('copy', 'arithmetic', 'funceval') else ('C09', 'C12')
                    grids = ('Grid1D', 'Grid2D', 'Grid3D')
                    quick = (pre == 'bc-dirty' or edit == 'bc-edit')

                    def parts(self, w):
                        return ['rows', 'flags'] + [(a, s) for a in range(w.nd) for s in (0, 1)]

                    def region(self, w):
                        return [c for a in range(w.nd) for c in (I(w.P[a]) >= 0, I(w.P[a]) <= w.N[a] + 1)]

                    def points(self, w):
                        return list(itertools.product(*[range(0, n + 2) for n in w.N]))

                    def setup(self, w, how=how, pre=pre, edit=edit):
                        cv = make_prestate(w, 'phi0', pre)
                        r = _derive(w, cv, how)
                        if edit == 'bc-edit':
                            side = SIDES[w.nd - 1][0]
                            getattr(r.BCs, side).c = w.array('late_c', side_shape(w, w.nd - 1))
                            r.BCs.right.b = w.array('late_b', side_shape(w, 0))
                        elif edit == 'value-edit':
                            r.value = w.array('late_v', tuple(w.N))
                        z = _term_zoo(w)
                        rec = {}

                        def solver(M, RHS):
                            rec['M'], rec['RHS'] = M, RHS
                            if w.symbolic:
                                return T.SPSOLVE(M, RHS)
                            from scipy.sparse.linalg import spsolve
                            return spsolve(M, RHS)
                        fresh_M, fresh_RHS = bnd.boundaryConditionsTerm(r.BCs)
                        pde.solvePDE(r, [-z['Md'], z['Ms'], z['Rg']], externalsolver=solver)
                        return dict(cv=r, rec=rec, fM=fresh_M, fRHS=fresh_RHS, z=z, psi=w.rawcell('psi')._value)

                    def claims(self, w, S, P, part):
                        cv = S['cv']
                        if part == 'flags':
                            return [('clean_after_solve', self.flag(w, is_clean(cv)))]
                        if part == 'rows':
                            nb = 0
                            for a in range(w.nd):
                                onb = CTX.decide((I(P[a]) == 0) | (I(P[a]) == w.N[a] + 1)) if w.symbolic else (P[a] in (0, w.N[a] + 1))
                                nb += 1 if onb else 0
                            if nb > 1:
                                return []
                            psi, z, rec = S['psi'], S['z'], S['rec']
                            lhs = w.apply(rec['M'], psi, P) - w.vec(rec['RHS'], P)
                            want = (w.apply(S['fM'], psi, P) - w.vec(S['fRHS'], P) - w.apply(z['Md'], psi, P)
                                    + w.apply(z['Ms'], psi, P) - w.vec(z['Rg'], P))
                            return [('system_is_fresh_system', w.eq(lhs, want))]
                        if w.symbolic:
                            if not all(CTX.decide((I(P[a]) >= 1) & (I(P[a]) <= w.N[a])) for a in range(w.nd)):
                                return []
                        elif not all(1 <= P[a] <= w.N[a] for a in range(w.nd)):
                            return []
                        return inv_claims(w, cv, P, part, 'cv')
                Derived.__name__ = 'Derived_%s_%s_%s' % (how.replace('-', '_'), pre.replace('-', '_'), edit.replace('-', '_'))
                Derived.__qualname__ = Derived.__name__
                Derived.__module__ = __name__
                globals()[Derived.__name__] = Derived


_mk_derived_classes()
