"""Deliberately false clauses: each must be refuted with a counter-model that replays on the real code,
otherwise the check reports a checker fault (vacuity / soundness guard, DESIGN 3.5)."""
from .common import *
from .ops import ones_field


class CanaryUpwindIsTwiceDiv(AxisOb):
    name = 'canary/upwind_of_constant_is_2_div_u'
    props = ('C06',)
    grids = ('Grid1D', 'Grid2D')
    canary = True

    def setup(self, w):
        u = w.facevar('u')
        M, ps = parts(builder(adv, 'convectionUpwindTerm', w.grid)(u))
        d, ds = parts(builder(cal, 'divergenceTerm', w.grid)(u))
        return dict(ps=ps, ds=ds, one=ones_field(w))

    def claims(self, w, S, P, a):
        return [('canary', w.eq(w.apply(S['ps'][a], S['one'], P), 2 * w.vec(S['ds'][a], P)))]


class CanaryUpwindIsCentral(AxisOb):
    name = 'canary/upwind_matrix_is_central_matrix'
    props = ('C05',)
    grids = ('Grid1D', 'CylindricalGrid2D')
    canary = True

    def setup(self, w):
        u = w.facevar('u')
        M, ps = parts(builder(adv, 'convectionUpwindTerm', w.grid)(u))
        M2, ps2 = parts(builder(adv, 'convectionTerm', w.grid)(u))
        return dict(ps=ps, ps2=ps2, phi=w.rawcell('phi')._value)

    def claims(self, w, S, P, a):
        return [('canary', w.eq(w.apply(S['ps'][a], S['phi'], P), w.apply(S['ps2'][a], S['phi'], P)))]


# ------------------------------------------------------------------------------------------------
#  one canary per property: near-miss versions of real clauses (wrong weight, wrong metric factor, wrong scale, stale
#  state, missing sign reversal, aliasing getter, foreign label).  Each must come back refuted AND replay on the real
#  code; a canary that is "proved", undecided or not replayable is a checker fault (exit 3).

from . import ops as _ops, bc as _bc, solver as _solver, embed as _embed, state as _state, units as _units
from . import loud as _loud, heap as _heap
from .bc import SIDES, boundary_cell, coef_at, ghost_denominator


class CanaryUnweightedSumConserved(_ops.DiffConservation):
    """C01 with the volume weights dropped: on a cylindrical grid the plain sum of cell values is NOT conserved"""
    name = 'canary/diffusion_conserves_unweighted_sum'
    props = ('C01',)
    grids = ('CylindricalGrid1D', 'SphericalGrid1D')
    canary = True

    def W(self, w, S, P, a):
        return S['T'][a](P) + S['T'][a](shift(P, a, 1))


class CanaryFluxWithoutAngularMetric(_ops.DiffFluxForm):
    """C02 with the 1/r factor of the angular gradient dropped from the two-point flux"""
    name = 'canary/diffusion_flux_without_angular_metric'
    props = ('C02',)
    grids = ('PolarGrid2D', 'CylindricalGrid3D')
    canary = True

    def flux(self, w, S, a, P, side):
        lo, hi = _ops._lohi(w, S, a, P, side)
        cs = getattr(w.mesh.cellsize, '_' + AX[a])
        dist = (w.at(cs, (lo[a],)) + w.at(cs, (hi[a],))) / 2
        return self.kf(w, S, a, P, side) * (w.at(S['phi'], hi) - w.at(S['phi'], lo)) / dist


class CanaryRobinWithoutAngularMetric(_bc._BCOb):
    """C03 with the 1/r factor of the angular difference quotient dropped from the boundary relation"""
    name = 'canary/ghost_satisfies_robin_without_angular_metric'
    props = ('C03',)
    grids = ('PolarGrid2D',)
    pattern = 'nn'
    canary = True

    def setup(self, w):
        BC, coefs = _bc.make_bc(w, self.pattern)
        phi = w.array('phi', tuple(w.N))
        return dict(out=bnd.cellValuesWithBoundaries(phi, BC), coefs=coefs)

    def claims(self, w, S, P, part):
        a, s = part
        Q, G = boundary_cell(w, P, a, s)
        vg, vq = w.at(S['out'], G), w.at(S['out'], Q)
        lo, hi = (vg, vq) if s == 0 else (vq, vg)
        cs = getattr(w.mesh.cellsize, '_' + AX[a])
        h = w.at(cs, (0,)) if s == 0 else w.at(cs, (w.N[a] + 1,))
        A, Bc, C = (coef_at(w, S['coefs'], a, s, cn, Q) for cn in 'abc')
        resid = A * (hi - lo) / h + Bc * (hi + lo) / 2 - C
        den = ghost_denominator(w, S['coefs'], a, s, Q)
        if w.symbolic:
            return [('canary[%s]' % SIDES[a][s], (R.of(den) != 0).implies(R.of(resid) == 0))]
        if abs(den) <= 1e-6:
            return []
        w.scale = 1e3
        return [('canary[%s]' % SIDES[a][s], w.eq(resid, 0.0))]


class CanarySolvePDEIgnoresScale(_solver.SolvePDE):
    """C04 claiming that the term 2.0*linearSourceTerm enters the system with factor 1"""
    name = 'canary/solvePDE_system_ignores_term_scale'
    props = ('C04',)
    grids = ('Grid1D', 'Grid2D')
    canary = True
    claimed_scale = 1.0

    def parts(self, w):
        return ['rows']


class CanaryMirrorKeepsVelocity(_embed.Mirror):
    """C08 mirroring WITHOUT reversing the velocity component"""
    name = 'canary/mirror_without_reversing_velocity'
    props = ('C08',)
    grids = ('Grid1D', 'Grid2D')
    canary = True
    reverse_velocity = False


class CanaryStaleGhostsSatisfyBCs(_state._StateOb):
    """C09: a variable whose .value was assigned (and not yet re-synchronised) does NOT satisfy the content part of Inv"""
    name = 'canary/value_dirty_state_has_current_ghosts'
    props = ('C09',)
    grids = ('Grid1D', 'Grid2D')
    canary = True

    def setup(self, w):
        return dict(cv=_state.make_prestate(w, 'phi0', 'value-dirty'))

    def parts(self, w):
        return [(a, s) for a in range(w.nd) for s in (0, 1)]

    def claims(self, w, S, P, part):
        return [c for c in _state.inv_claims(w, S['cv'], P, part, 'cv', force=True) if 'ghost' in c[0]]


class CanaryTransientIsAlphaTimesDt(_solver.TransientTerm):
    """C12 with alpha*dt on the diagonal instead of alpha/dt"""
    name = 'canary/transient_matrix_is_alpha_times_dt'
    props = ('C12',)
    grids = ('Grid1D', 'PolarGrid2D')
    canary = True

    def region(self, w):
        return w.interior()

    def points(self, w):
        return w.interior_points()

    def claims(self, w, S, P, part=None):
        return [('canary', w.eq(w.apply(S['M'], S['phi'], P), S['alpha'] * S['dt'] * w.at(S['phi'], P)))]


class CanarySubtractionCommutes(Ob):
    """C14: (a - b) elementwise equals (b - a)"""
    name = 'canary/cellvariable_subtraction_commutes'
    props = ('C14',)
    grids = ('Grid1D', 'Grid2D')
    canary = True

    def setup(self, w):
        a, _ = _solver.make_cellvar(w, 'va')
        b, _ = _solver.make_cellvar(w, 'vb')
        return dict(a=a, b=b, r=a - b)

    def claims(self, w, S, P, part=None):
        return [('canary', w.eq(w.at(S['r']._value, P), w.at(S['b']._value, P) - w.at(S['a']._value, P)))]


class CanaryCellPropGetterIsFresh(Ob):
    """C15 machinery: mesh.cellsize.<label> returns the stored array itself, so 'the result does not alias the inputs'
    must be reported false for it"""
    name = 'canary/coordinate_getter_returns_fresh_array'
    props = ('C15',)
    grids = ('Grid1D', 'CylindricalGrid2D')
    canary = True

    def region(self, w):
        return []

    def points(self, w):
        return [()]

    def setup(self, w):
        f = _heap.Frame(w, (w.mesh,))
        r = w.mesh.cellsize._x
        return dict(obs=f.done(r))

    def claims(self, w, S, P, part=None):
        return [('canary', _heap.flag(w, not S['obs']['aliased']))]


class CanaryForeignLabelReadable(_loud._EnumOb):
    """C16: a label foreign to the coordinate system is readable"""
    name = 'canary/foreign_coordinate_label_is_readable'
    props = ('C16',)
    grids = ('Grid1D', 'SphericalGrid3D')
    canary = True

    def setup(self, w):
        foreign = 'theta' if w.grid == 'Grid1D' else 'x'
        return dict(got=_loud.outcome(lambda: getattr(w.mesh.cellcenters, foreign))[0])

    def claims(self, w, S, P, part=None):
        return [('canary', _heap.flag(w, S['got'] == 'ok'))]


class CanaryDiffusivityScalesAsLength(_units.DiffUnits):
    """C17 with D rescaled by L/T instead of L^2/T"""
    name = 'canary/diffusivity_scales_as_length_over_time'
    props = ('C17',)
    grids = ('Grid1D', 'CylindricalGrid2D')
    canary = True
    d_length_power = 1
