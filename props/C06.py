"""C06 uniform fields stay uniform"""
from .common import jobs_for
LEVEL = 'proof'
LEVEL_TEXT = 'diffusion of a constant is zero, central/upwind of a constant equals c*div(u) and the TVD correction of a constant is zero (arbitrary uninterpreted limiter), per axis for a symbolic interior cell on all 9 grids'
LEVEL_NOTE = 'steady-state corollary through solvePDE relies on the solver contract (A4); explicit-u_upwind-with-exact-zeros is a recorded finding'
MODULES = ['contracts.ops', 'contracts.canaries']
TRUSTED = ['A1', 'A2', 'A5', 'A6', 'UF']


def jobs(tier):
    return jobs_for('C06', MODULES, tier)
