"""stand-alone cvc5 query (SMT-LIB text on stdin, answer on stdout), run in a child process so that a hard wall-clock
timeout and an address-space limit can be enforced from outside (the in-process API call cannot be interrupted)."""
import sys


def main():
    import cvc5
    txt = sys.stdin.read()
    ms = int(sys.argv[1]) if len(sys.argv) > 1 else 3000
    tm = cvc5.TermManager()
    slv = cvc5.Solver(tm)
    slv.setOption('tlimit-per', str(ms))
    try:
        slv.setOption('nl-cov', 'true')
    except Exception:      # noqa: BLE001
        pass
    ps = cvc5.InputParser(slv)
    ps.setStringInput(cvc5.InputLanguage.SMT_LIB_2_6, txt, 'leaf')
    sm = ps.getSymbolManager()
    ans = 'error:no answer'
    while True:
        c = ps.nextCommand()
        if c.isNull():
            break
        o = c.invoke(slv, sm).strip()
        if o in ('sat', 'unsat', 'unknown'):
            ans = o
    print(ans)


if __name__ == '__main__':
    main()
