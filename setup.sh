#!/bin/sh
# Offline, idempotent: builds /verif/.venv (python 3.12 from /venv + z3-solver, cvc5, jsonschema from the
# wheelhouse) with a .pth onto /venv's site-packages (numpy, scipy of the repository's own environment).
set -e
cd "$(dirname "$0")"
if [ ! -x .venv/bin/python ] || ! .venv/bin/python -c "import z3, numpy, scipy, jsonschema" 2>/dev/null; then
  rm -rf .venv
  /venv/bin/python -m venv .venv
  PIP_NO_INDEX=1 .venv/bin/pip install -q --no-index --find-links /opt/veriftools/wheels z3-solver cvc5 jsonschema
  SP=$(.venv/bin/python -c "import site; print(site.getsitepackages()[0])")
  echo "import site; site.addsitedir('/venv/lib/python3.12/site-packages')" > "$SP/verif_overlay.pth"
fi
.venv/bin/python -c "import z3, numpy, scipy, jsonschema; print('venv ok', z3.get_version_string(), numpy.__version__)"
