"""C10: postconditions of the real mesh constructors (both forms) = the representation invariant well_formed(mesh)
that every builder contract assumes; cell volumes against the geometric spec of each coordinate system."""
from .common import *
from fvverif import trace as T
from fvverif.arrays import SymNDArray, lin_atom
from fvverif.ints import IExpr
import math

LABELS = {g: dict(info['labels']) for g, info in GRIDS.items()}


class _MeshOb(Ob):
    props = ('C10',)
    form = 'faces'

    def region(self, w):
        k = w.P[0]
        return [I(k) >= 0]

    def points(self, w):
        return [(k,) for k in range(0, max(w.N) + 2)]

    def parts(self, w):
        return list(range(w.nd))

    def build(self, w):
        cls = getattr(pf, w.grid)
        nd = w.nd
        if self.form == 'faces':
            if w.symbolic:
                faces = [w.src.arr('f' + AX[a], (w.N[a] + 1,)) for a in range(nd)]
            else:
                m0 = T.make_mesh(w.src, w.grid)      # generates admissible face arrays
                faces = [w.src.values['f' + AX[a]].astype(float) for a in range(nd)]
            return cls(*faces), faces, None
        L = [w.scalar('L' + AX[a], 'pos') for a in range(nd)]
        if w.symbolic:
            Ns = list(w.N)
        else:
            Ns = [int(n) for n in w.N]
        return cls(*(Ns + L)), None, L

    def setup(self, w):
        m, faces, L = self.build(w)
        return dict(m=m, faces=faces, L=L)

    def face_at(self, w, S, a, k):
        """the intended position of face k on axis a"""
        if self.form == 'faces':
            return w.at(S['faces'][a], (k,))
        if w.symbolic:
            return R.of(I(k)) * S['L'][a] / R.of(w.N[a])
        return k * S['L'][a] / w.N[a]

    def hyps(self, w, groups, apps, out):
        pass


class MeshFields(_MeshOb):
    """dims, faces as given, centres midway, sizes = face differences with repeated ghost sizes, placeholders"""
    name = 'mesh.__init__/well_formed(faces)'
    form = 'faces'

    def claims(self, w, S, P, a):
        m = S['m']
        k = P[0]
        N = w.N[a]
        out = []
        ax = '_' + AX[a]
        fc = getattr(m.facecenters, ax)
        cc = getattr(m.cellcenters, ax)
        cs = getattr(m.cellsize, ax)
        if w.symbolic:
            dec = CTX.decide
            shapes_ok = (len(fc.shape) == 1 and dims_same(fc.shape[0], N + 1) and dims_same(cc.shape[0], N)
                         and dims_same(cs.shape[0], N + 2) and dims_same(m.dims.at((a,)), N)
                         and len(m.dims.shape) == 1 and dims_same(m.dims.shape[0], w.nd))
            out.append(('dims_and_shapes[%s]' % AX[a], B.const(bool(shapes_ok))))
            if dec(I(k) <= N):
                out.append(('faces_as_given[%s]' % AX[a], w.eq(w.at(fc, (k,)), self.face_at(w, S, a, k))))
            if dec(I(k) <= N - 1):
                out.append(('centres_midway[%s]' % AX[a],
                            w.eq(w.at(cc, (k,)), (self.face_at(w, S, a, k) + self.face_at(w, S, a, I(k) + 1)) / 2)))
            if dec(I(k) <= N + 1):
                if dec(I(k) == 0):
                    want = self.face_at(w, S, a, 1) - self.face_at(w, S, a, 0)
                elif dec(I(k) == N + 1):
                    want = self.face_at(w, S, a, N) - self.face_at(w, S, a, N - 1)
                else:
                    want = self.face_at(w, S, a, k) - self.face_at(w, S, a, I(k) - 1)
                out.append(('sizes_are_face_differences_ghosts_repeat[%s]' % AX[a], w.eq(w.at(cs, (k,)), want)))
        else:
            shapes_ok = (fc.shape == (N + 1,) and cc.shape == (N,) and cs.shape == (N + 2,) and int(m.dims[a]) == N
                         and m.dims.shape == (w.nd,))
            out.append(('dims_and_shapes[%s]' % AX[a], bool(shapes_ok)))
            if k <= N:
                out.append(('faces_as_given[%s]' % AX[a], w.eq(w.at(fc, (k,)), self.face_at(w, S, a, k))))
            if k <= N - 1:
                out.append(('centres_midway[%s]' % AX[a],
                            w.eq(w.at(cc, (k,)), (self.face_at(w, S, a, k) + self.face_at(w, S, a, k + 1)) / 2)))
            if k <= N + 1:
                if k == 0:
                    want = self.face_at(w, S, a, 1) - self.face_at(w, S, a, 0)
                elif k == N + 1:
                    want = self.face_at(w, S, a, N) - self.face_at(w, S, a, N - 1)
                else:
                    want = self.face_at(w, S, a, k) - self.face_at(w, S, a, k - 1)
                out.append(('sizes_are_face_differences_ghosts_repeat[%s]' % AX[a], w.eq(w.at(cs, (k,)), want)))
        # unused axes and labels (independent of k)
        ok = True
        for b in range(w.nd, 3):
            for obj in (m.facecenters, m.cellcenters, m.cellsize):
                arr = getattr(obj, '_' + AX[b])
                if w.symbolic:
                    ok = ok and len(arr.shape) == 1 and dims_same(arr.shape[0], 1)
                    v = arr.at((I(0),))
                    ok = ok and R.of(v).is_const() and R.of(v).cval() == 0
                else:
                    ok = ok and arr.shape == (1,) and float(arr[0]) == 0.0
        for obj in (m.facecenters, m.cellcenters, m.cellsize):
            ok = ok and dict(obj.coordlabels) == LABELS[w.grid]
        out.append(('unused_axes_placeholder_and_labels', (B.const(bool(ok)) if w.symbolic else bool(ok))))
        return out


def dims_same(a, b):
    from fvverif.arrays import dims_equal
    return dims_equal(a, b)


class MeshFieldsNL(MeshFields):
    """the (N, L) form equals the face-position form on equispaced faces f[k] = k*L/N"""
    name = 'mesh.__init__/well_formed(N,L)'
    form = 'NL'


class CellNumbers(Ob):
    name = 'mesh.cell_numbers/is_cell_id_bijection'
    props = ('C10', 'C04')

    def region(self, w):
        conds = []
        for a in range(w.nd):
            conds += [I(w.P[a]) >= 0, I(w.P[a]) <= w.N[a] + 1]
        return conds

    def points(self, w):
        import itertools
        return list(itertools.product(*[range(0, n + 2) for n in w.N]))

    def setup(self, w):
        return dict(G=w.mesh.cell_numbers())

    def claims(self, w, S, P, part=None):
        G = S['G']
        if w.symbolic:
            v = I(G.at(P))
            if w.nd == 1:
                ok = CTX.decide(v == I(P[0]))
            else:
                l = v.as_lin()
                ok = l is not None and len(l.shape) == w.nd and \
                    all(dims_same(x, y) for x, y in zip(l.shape, w.ghost_shape())) and \
                    all(CTX.decide(I(x) == I(y)) for x, y in zip(l.idx, P))
            shp = len(G.shape) == w.nd and all(dims_same(x, y) for x, y in zip(G.shape, w.ghost_shape()))
            return [('cell_numbers_is_C_order_index', B.const(bool(ok and shp)))]
        return [('cell_numbers_is_C_order_index', int(G[tuple(P)]) == w.lin(P) and G.shape == tuple(n + 2 for n in w.N))]


def volume_spec(w, grid, f, P):
    """geometric volume of interior cell with 0-based index P; f(a, k) = face position k on axis a"""
    d = [f(a, P[a] + 1) - f(a, P[a]) for a in range(w.nd)]
    pi = R.var('pi') if w.symbolic else math.pi
    r1 = f(0, P[0])
    r2 = f(0, P[0] + 1)
    if grid == 'Grid1D':
        return d[0]
    if grid == 'Grid2D':
        return d[0] * d[1]
    if grid == 'Grid3D':
        return d[0] * d[1] * d[2]
    if grid == 'CylindricalGrid1D':
        return (r2 * r2 - r1 * r1) / 2 * (2 * pi)
    if grid == 'CylindricalGrid2D':
        return (r2 * r2 - r1 * r1) / 2 * (2 * pi) * d[1]
    if grid == 'PolarGrid2D':
        return (r2 * r2 - r1 * r1) / 2 * d[1]
    if grid == 'CylindricalGrid3D':
        return (r2 * r2 - r1 * r1) / 2 * d[1] * d[2]
    if grid == 'SphericalGrid1D':
        return (r2 * r2 * r2 - r1 * r1 * r1) / 3 * 2 * (2 * pi)
    if grid == 'SphericalGrid3D':
        c1 = w.fn('cos', f(1, P[1]))
        c2 = w.fn('cos', f(1, P[1] + 1))
        return (r2 * r2 * r2 - r1 * r1 * r1) / 3 * (c1 - c2) * d[2]
    raise KeyError(grid)


class CellVolume(Ob):
    """cellvolume[P] is the geometric volume of cell P in the grid's coordinate system, and positive"""
    name = 'mesh._getCellVolumes/per_cell_geometric_volume'
    props = ('C10',)

    def setup(self, w):
        m = w.mesh
        return dict(V=m.cellvolume, m=m)

    def claims(self, w, S, P, part=None):
        m = S['m']
        P0 = tuple(p - 1 for p in P)

        def f(a, k):
            return w.at(getattr(m.facecenters, '_' + AX[a]), (k,))
        v = w.at(S['V'], P0)
        out = [('per_cell_geometric_volume', w.eq(v, volume_spec(w, w.grid, f, P0))),
               ('positive', w.lt(0, v))]
        return out

    def hyps(self, w, groups, apps, out):
        # cos is strictly decreasing on [0, pi]: instantiate on the cos applications present
        cs = [ap for ap in apps if ap.node[1] == 'cos']
        for x in cs:
            out.append(x <= 1)
            out.append(x >= -1)
            for y in cs:
                if x is not y:
                    out.append((x.node[2] < y.node[2]).implies(x > y))


class CanaryVolumeWrongPower(Ob):
    name = 'canary/cylindrical_volume_without_square'
    props = ('C10',)
    grids = ('CylindricalGrid1D', 'PolarGrid2D')
    canary = True

    def setup(self, w):
        m = w.mesh
        return dict(V=m.cellvolume, m=m)

    def claims(self, w, S, P, part=None):
        m = S['m']
        P0 = tuple(p - 1 for p in P)
        r1 = w.at(m.facecenters._x, (P0[0],))
        r2 = w.at(m.facecenters._x, (P0[0] + 1,))
        pi = R.var('pi') if w.symbolic else math.pi
        dth = (w.at(m.facecenters._y, (P0[1] + 1,)) - w.at(m.facecenters._y, (P0[1],))) if w.nd == 2 else 2 * pi
        return [('canary', w.eq(w.at(S['V'], P0), (r2 - r1) * dth))]


class CornerEdgeBookkeeping(Ob):
    """Corner cells (2-D) and edge/corner cells (3-D) of the ghost layer are bookkeeping unknowns: they are never a
    column of an interior or face-ghost row (proved: bc.BCRows / solver.SolvePDE for arbitrary fields).  What is left
    is that the system stays SOLVABLE: `mesh.corners` / `mesh.edges` (mixed basic/advanced indexing, numpy's
    transposition rule: out of the symbolic model's reach) enumerate exactly those cells, each gets exactly one
    diagonal entry and a zero right-hand side, and the assembled system of a diffusion-reaction problem has full rank.
    BOUNDED stand-in (never counted as proved): native runs on small grids."""
    name = 'mesh.corners_edges/bookkeeping_rows_keep_system_regular(bounded)'
    props = ('C04', 'C10')
    grids = ('Grid2D', 'CylindricalGrid2D', 'PolarGrid2D', 'Grid3D', 'CylindricalGrid3D', 'SphericalGrid3D')
    bounded_only = True
    scope = 'grids of 1..4 cells per axis (random), left Dirichlet / top Robin (positive a, b) / otherwise no-flux, random rational data, seeds VERIF_SEED..+5 (quick) / +39 (thorough)'

    def region(self, w):
        return []

    def points(self, w):
        return [()]

    def setup(self, w):
        from .bc import side_shape
        BC = bnd.BoundaryConditions(w.mesh)              # default no-flux everywhere ...
        BC.left.fixedValue(w.array('dirl', side_shape(w, 0)))      # ... Dirichlet on the left,
        BC.top.a = w.array('ta', side_shape(w, 1), 'pos')          # Robin with positive coefficients on the top face
        BC.top.b = w.array('tb', side_shape(w, 1), 'pos')
        BC.top.c = w.array('tc', side_shape(w, 1))
        M, RHS = bnd.boundaryConditionsTerm(BC)
        D = w.facevar('D', 'pos')
        beta = cel.CellVariable(w.mesh, 1.0)
        A = M - dif.diffusionTerm(D) + src_.linearSourceTerm(beta)
        return dict(M=M, RHS=RHS, A=A)

    def claims(self, w, S, P, part=None):
        import itertools
        np_ = T.real_np
        m = w.mesh
        shape = tuple(n + 2 for n in w.N)
        G = np_.arange(int(np_.prod(shape))).reshape(shape)
        book = set()
        for idx in itertools.product(*[range(s) for s in shape]):
            nb = sum(1 for a in range(w.nd) if idx[a] in (0, shape[a] - 1))
            if nb >= 2:
                book.add(int(G[idx]))
        listed = set(int(x) for x in np_.asarray(m.corners).ravel()) if w.nd == 2 else \
            set(int(x) for x in np_.asarray(m.edges).ravel()) | set(int(x) for x in np_.asarray(m.corners).ravel())
        out = [('mesh_lists_exactly_the_bookkeeping_cells', listed == book)]
        Md = S['M'].toarray()
        ok_rows = True
        for r in book:
            nz = np_.nonzero(Md[r])[0]
            ok_rows = ok_rows and (len(nz) == 1 and nz[0] == r and float(S['RHS'][r]) == 0.0)
        out.append(('one_diagonal_entry_and_zero_rhs_per_bookkeeping_cell', bool(ok_rows)))
        Ad = S['A'].toarray()
        out.append(('assembled_diffusion_reaction_system_has_full_rank', int(np_.linalg.matrix_rank(Ad)) == Ad.shape[0]))
        return out
