"""From symbolic claims to solver verdicts: Ackermannisation of element variables under a decided index region,
precondition instantiation, z3 (nlsat) / cvc5 discharge, counter-model extraction."""
import time
import subprocess
import tempfile
import os
from fractions import Fraction
import z3
from .ints import IExpr, ICond, I, CTX, NeedSplit, OutOfReach, Lin, explore
from .reals import R, B, walk, rebuild, variables, resolve_ints, IdDict, show


# ------------------------------------------------------------------------------------------------
#  canonical element variables

def canonicalize(exprs):
    """Decide, under the current assumptions, which element variables coincide; returns (exprs', groups) where
    groups: name -> list of canonical index tuples.  May raise NeedSplit."""
    vs = []
    seen = set()
    for e in exprs:
        for v in variables(e):
            if id(v) not in seen:
                seen.add(id(v))
                vs.append(v)
    groups = {}
    repl = IdDict()
    for v in vs:
        _, name, idx = v.node
        reps = groups.setdefault(name, [])
        found = None
        for r in reps:
            if len(r) != len(idx):
                continue
            same = True
            for a, b in zip(r, idx):
                a, b = I(a), I(b)
                if a.same(b):
                    continue
                if not CTX.decide(_index_eq(a, b)):
                    same = False
                    break
            if same:
                found = r
                break
        if found is None:
            reps.append(idx)
        else:
            repl[v] = R.var(name, found)
    if len(repl) == 0:
        return list(exprs), groups

    def leaf(x):
        if x.node[0] == 'v':
            return repl.get(x)
        return None
    return [rebuild(e, leaf) for e in exprs], groups


def _index_eq(a, b):
    la, lb = a.as_lin(), b.as_lin()
    if la is not None and lb is not None:
        c = ICond.true()
        for x, y in zip(la.idx, lb.idx):
            c = c & (x == y)
        return c
    return a == b


def sorted_indices(idxs):
    """sort 1-D canonical indices by value under the current assumptions (may raise NeedSplit)"""
    import functools

    def cmp(a, b):
        a0, b0 = I(a[0]), I(b[0])
        if a0.same(b0):
            return 0
        return -1 if CTX.decide(a0 < b0) else 1
    return sorted(idxs, key=functools.cmp_to_key(cmp))


# ------------------------------------------------------------------------------------------------
#  hypotheses (instantiated preconditions)

def hyp_increasing(groups, name, out, lower=None, strict_lower=False, upper=None):
    idxs = groups.get(name, [])
    s = sorted_indices(idxs)
    for a, b in zip(s, s[1:]):
        out.append(R.var(name, a) < R.var(name, b))
    if lower is not None:
        for a in s:
            # f[0] >= lower ; f[k] > lower for k >= 1
            i = I(a[0])
            if CTX.decide(i >= 1):
                out.append(R.var(name, a) > lower)
            else:
                out.append((R.var(name, a) > lower) if strict_lower else (R.var(name, a) >= lower))
    if upper is not None:
        for a in s:
            out.append(R.var(name, a) < upper)


def hyp_all(groups, name, pred, out):
    for idx in groups.get(name, []):
        out.append(pred(R.var(name, idx)))


# ------------------------------------------------------------------------------------------------
#  z3 translation

CROSSCHECK = [int(os.environ.get('VERIF_CROSSCHECK', '0') or 0)]    # seconds of cvc5 budget per proved leaf (0 = off)
CROSS_JOB_BUDGET = [float(os.environ.get('VERIF_CROSSCHECK_JOB', '90') or 90)]   # cvc5 seconds per job (process-cumulative)
NORMALISE = [True]   # identify function applications whose arguments are equal as rational functions (normal.py)
USE_UF = [False]     # per-obligation switch: real uninterpreted functions (congruence) instead of one variable per
                     # syntactically distinct application (cheaper, sound for proving, weaker hypotheses)


class Z3Real:
    def __init__(self):
        self.vars = {}      # key -> z3 Real
        self.vnodes = {}    # key -> R var node
        self.iatoms = {}
        self.fapps = {}
        self.funcs = {}
        from .normal import Classes
        self.classes = Classes()      # applications with provably equal arguments share one variable (normal.py)

    def var(self, node):
        _, name, idx = node.node
        k = (name, tuple(I(i).key() for i in idx))
        v = self.vars.get(k)
        if v is None:
            v = z3.Real('%s[%s]' % (name, ','.join(str(i) for i in idx)) if idx else name)
            self.vars[k] = v
            self.vnodes[k] = node
        return v

    def iatom(self, a):
        v = self.iatoms.get(a)
        if v is None:
            v = z3.Real('int!%s' % (a if isinstance(a, str) else 'lin%d' % len(self.iatoms)))
            self.iatoms[a] = v
        return v

    def ipoly(self, p):
        s = z3.RealVal(0)
        for m, c in p.terms.items():
            t = z3.RealVal(c)
            for a, k in m:
                for _ in range(k):
                    t = t * self.iatom(a)
            s = s + t
        return s

    def icond(self, c):
        if c.op == 'true':
            return z3.BoolVal(True)
        if c.op == 'false':
            return z3.BoolVal(False)
        if c.op == 'and':
            return z3.And(*[self.icond(a) for a in c.args])
        if c.op == 'or':
            return z3.Or(*[self.icond(a) for a in c.args])
        p = self.ipoly(c.poly)
        return p >= 0 if c.op == 'ge' else p == 0 if c.op == 'eq' else p != 0

    def tr(self, e):
        memo = IdDict()
        for x in walk(e):
            n = x.node
            t = n[0]
            if t == 'c':
                f = n[1]
                r = z3.RealVal(f.numerator) / z3.RealVal(f.denominator) if f.denominator != 1 else z3.RealVal(f.numerator)
            elif t == 'v':
                r = self.var(x)
            elif t == 'i':
                r = self.ipoly(n[1])
            elif t == '+':
                r = memo[n[1]] + memo[n[2]]
            elif t == '*':
                r = memo[n[1]] * memo[n[2]]
            elif t == '/':
                r = memo[n[1]] / memo[n[2]]
            elif t == 'neg':
                r = -memo[n[1]]
            elif t == 'pow':
                b = memo[n[1]]
                r = b
                for _ in range(n[2] - 1):
                    r = r * b
            elif t == 'ite':
                r = z3.If(memo[n[1]], memo[n[2]], memo[n[3]])
            elif t == 'f':
                k = (n[1],) + tuple(id(a) for a in n[2:])
                if not USE_UF[0] and NORMALISE[0]:
                    try:
                        k = (n[1],) + tuple(('cls', self.classes.cls(a)) for a in n[2:])
                    except Exception:      # noqa: BLE001  -- too big / unsupported: fall back to syntactic identity
                        k = (n[1],) + tuple(id(a) for a in n[2:])
                if USE_UF[0]:
                    # uninterpreted function application (congruence is decided by the solver)
                    fn = self.funcs.get((n[1], len(n) - 2))
                    if fn is None:
                        fn = z3.Function('uf_' + n[1], *([z3.RealSort()] * (len(n) - 1)))
                        self.funcs[(n[1], len(n) - 2)] = fn
                    r = fn(*[memo[a] for a in n[2:]])
                    self.fapps[k] = r
                else:
                    r = self.fapps.get(k)
                    if r is None:
                        r = z3.Real('%s!%d' % (n[1], len(self.fapps)))
                        self.fapps[k] = r
            elif t == 'b':
                r = z3.BoolVal(n[1])
            elif t == 'ic':
                r = self.icond(n[1].c)
            elif t == 'cmp':
                a, b = memo[n[2]], memo[n[3]]
                r = {'<': a < b, '<=': a <= b, '>': a > b, '>=': a >= b, '==': a == b, '!=': a != b}[n[1]]
            elif t == 'and':
                r = z3.And(memo[n[1]], memo[n[2]])
            elif t == 'or':
                r = z3.Or(memo[n[1]], memo[n[2]])
            elif t == 'not':
                r = z3.Not(memo[n[1]])
            else:
                raise AssertionError(n)
            memo[x] = r
        return memo[e]


def fn_apps(exprs):
    """distinct uninterpreted applications ('f', name, args...) in exprs"""
    out = []
    seen = set()
    for e in exprs:
        for x in walk(e):
            if x.node[0] == 'f' and id(x) not in seen:
                seen.add(id(x))
                out.append(x)
    return out


def _val_to_fraction(v):
    if z3.is_rational_value(v):
        return Fraction(v.numerator_as_long(), v.denominator_as_long())
    if z3.is_algebraic_value(v):
        a = v.approx(30)
        return Fraction(a.numerator_as_long(), a.denominator_as_long())
    if z3.is_int_value(v):
        return Fraction(v.as_long())
    raise ValueError('unexpected model value %r' % (v,))


LAST_PROVED_SMT = [None]
STATS = {'z3_calls': 0, 'z3_seconds': 0.0, 'cvc5_calls': 0, 'cvc5_seconds': 0.0, 'unknown': 0}


def guard_pairs(exprs):
    """distinct (a, b) operand pairs of real comparisons occurring in ite guards (or boolean structure) of exprs"""
    out = []
    seen = set()
    for e in exprs:
        for x in walk(e):
            if x.node[0] == 'cmp':
                a, b = x.node[2], x.node[3]
                k = (id(a), id(b))
                k2 = (id(b), id(a))
                if k in seen or k2 in seen:
                    continue
                seen.add(k)
                out.append((a, b))
    return out


def assume_relation(e, a, b, rel):
    """rewrite e under the assumption  a rel b  (rel in '<', '==', '>'): every comparison of a with b is decided"""
    truth = {'<': {'<': True, '<=': True, '==': False, '!=': True, '>': False, '>=': False},
             '==': {'<': False, '<=': True, '==': True, '!=': False, '>': False, '>=': True},
             '>': {'<': False, '<=': False, '==': False, '!=': True, '>': True, '>=': True}}[rel]
    flip = {'<': '>', '<=': '>=', '==': '==', '!=': '!=', '>': '<', '>=': '<='}
    memo = IdDict()
    for x in walk(e):
        n = x.node
        t = n[0]
        if t in ('c', 'v', 'i', 'b', 'ic'):
            memo[x] = x
        elif t == 'cmp':
            if n[2] is a and n[3] is b:
                memo[x] = B.const(truth[n[1]])
            elif n[2] is b and n[3] is a:
                memo[x] = B.const(truth[flip[n[1]]])
            else:
                memo[x] = B.cmp(n[1], memo[n[2]], memo[n[3]])
        elif t == '+':
            memo[x] = memo[n[1]] + memo[n[2]]
        elif t == '*':
            memo[x] = memo[n[1]] * memo[n[2]]
        elif t == '/':
            memo[x] = memo[n[1]] / memo[n[2]]
        elif t == 'neg':
            memo[x] = -memo[n[1]]
        elif t == 'pow':
            memo[x] = memo[n[1]] ** n[2]
        elif t == 'ite':
            memo[x] = R.ite(memo[n[1]], memo[n[2]], memo[n[3]])
        elif t == 'f':
            memo[x] = R.fn(n[1], *[memo[c] for c in n[2:]])
        elif t == 'and':
            memo[x] = memo[n[1]] & memo[n[2]]
        elif t == 'or':
            memo[x] = memo[n[1]] | memo[n[2]]
        elif t == 'not':
            memo[x] = ~memo[n[1]]
        else:
            raise AssertionError(n)
    return memo[e]


def abstract_fapps(exprs):
    """Ackermannisation at the term level: every application of an uninterpreted function is replaced by one real
    variable per class of (function name, arguments equal as rational functions -- fvverif/normal.py).  Done once,
    BEFORE any case split, so that the sign-splitting rewrites cannot make two equal arguments look different."""
    from .normal import Classes
    cl = Classes()
    names = {}
    memo = IdDict()
    out = []
    for e in exprs:
        for x in walk(e):
            if x in memo:
                continue
            n = x.node
            t = n[0]
            if t in ('c', 'v', 'i', 'b', 'ic'):
                memo[x] = x
            elif t == 'cmp':
                memo[x] = B.cmp(n[1], memo[n[2]], memo[n[3]])
            elif t == '+':
                memo[x] = memo[n[1]] + memo[n[2]]
            elif t == '*':
                memo[x] = memo[n[1]] * memo[n[2]]
            elif t == '/':
                memo[x] = memo[n[1]] / memo[n[2]]
            elif t == 'neg':
                memo[x] = -memo[n[1]]
            elif t == 'pow':
                memo[x] = memo[n[1]] ** n[2]
            elif t == 'ite':
                memo[x] = R.ite(memo[n[1]], memo[n[2]], memo[n[3]])
            elif t == 'f':
                try:
                    k = (n[1],) + tuple(cl.cls(a) for a in n[2:])
                except Exception:     # noqa: BLE001 -- too big / unsupported: syntactic identity of the arguments
                    k = (n[1],) + tuple(('id', id(a)) for a in n[2:])
                v = names.get(k)
                if v is None:
                    v = R.var('%s!%d' % (n[1], len(names)))
                    names[k] = v
                memo[x] = v
            elif t == 'and':
                memo[x] = memo[n[1]] & memo[n[2]]
            elif t == 'or':
                memo[x] = memo[n[1]] | memo[n[2]]
            elif t == 'not':
                memo[x] = ~memo[n[1]]
            else:
                raise AssertionError(n)
        out.append(memo[e])
    return out


def check_leaf(claim, hyps, region_conds=(), timeout_ms=20000, want_model=True, quick_ms=1500, depth=0, maxdepth=12):
    """adaptive: try the solver with a short budget; on timeout split on the sign of one compared pair
    (trichotomy  a<b | a==b | a>b) and recurse; the last level gets the full budget."""
    if claim.node == ('b', True):
        return 'proved', 'trivial', None
    if depth == 0 and not USE_UF[0] and NORMALISE[0]:
        hyps = list(hyps)
        allx = abstract_fapps([claim] + hyps)
        claim, hyps = allx[0], [h for h in allx[1:] if h.node != ('b', True)]
        if claim.node == ('b', True):
            return 'proved', 'trivial', None
    pairs = guard_pairs([claim]) if depth < maxdepth else []
    budget = quick_ms if pairs else timeout_ms
    st, be, model = _check_once(claim, hyps, region_conds, budget, want_model, last_resort=not pairs)
    if st != 'unknown' or not pairs:
        return st, be, model
    # prefer a pair that occurs in the claim's ite guards most often
    a, b = pairs[0]
    for rel in ('<', '==', '>'):
        c2 = assume_relation(claim, a, b, rel)
        h2 = [assume_relation(h, a, b, rel) for h in hyps]
        if any(h.node == ('b', False) for h in h2):
            continue
        extra = {'<': a < b, '==': a == b, '>': a > b}[rel]
        h2 = [h for h in h2 if h.node != ('b', True)] + [_raw_cmp(rel, a, b)]
        st, be, model = check_leaf(c2, h2, region_conds, timeout_ms, want_model, quick_ms, depth + 1, maxdepth)
        if st != 'proved':
            return st, be, model
    return 'proved', 'z3+split', None


def _raw_cmp(rel, a, b):
    from .reals import _mk
    return _mk(B, ('cmp', rel, a, b))


def _check_once(claim, hyps, region_conds=(), timeout_ms=20000, want_model=True, last_resort=True):
    """validity of (hyps -> claim).  returns ('proved', backend, None) | ('refuted', backend, model) | ('unknown', why, None)
    model: {'vars': [(name, idx tuple of IExpr, Fraction)], 'fapps': [...]}"""
    if claim.node == ('b', True):
        return 'proved', 'trivial', None
    Z = Z3Real()
    goal = [Z.tr(h) for h in hyps] + [z3.Not(Z.tr(claim))]
    if Z.iatoms:
        used = set(Z.iatoms)
        goal += [Z.icond(c) for c in region_conds if c.atoms() & used]
    t0 = time.time()
    STATS['z3_calls'] += 1
    s = z3.Tactic('qfnra-nlsat').solver() if not Z.iatoms and False else z3.Solver()
    s.set('timeout', timeout_ms)
    s.add(*goal)
    res = s.check()
    STATS['z3_seconds'] += time.time() - t0
    if res == z3.unsat:
        if LAST_PROVED_SMT[0] is None:
            try:
                LAST_PROVED_SMT[0] = s.to_smt2()[:1800]
            except Exception:     # noqa: BLE001
                pass
        if CROSSCHECK[0] and STATS['cvc5_seconds'] > CROSS_JOB_BUDGET[0]:
            return 'proved', 'z3(cvc5:job-budget-spent)', None
        if CROSSCHECK[0]:
            # thorough tier: every unsat is re-derived by a second, different back end (cvc5, cylindrical-algebraic
            # coverings) within CROSSCHECK seconds per leaf and CROSS_JOB_BUDGET seconds per job; a disagreement is a
            # checker fault, a timeout leaves the verdict with z3 alone (counted separately in the evidence)
            r2 = _cvc5_check(s, timeout_s=CROSSCHECK[0])
            if r2 == 'unsat':
                return 'proved', 'z3+cvc5', None
            if r2 == 'sat':
                STATS['disagreements'] = STATS.get('disagreements', 0) + 1
                return 'unknown', 'BACKEND-DISAGREEMENT z3:unsat cvc5:sat', None
            return 'proved', 'z3(cvc5:%s)' % ('timeout' if r2.startswith(('unknown', 'timeout')) else 'n/a'), None
        return 'proved', 'z3', None
    if res == z3.sat:
        if not want_model:
            return 'refuted', 'z3', None
        m = s.model()
        vals = []
        for k, zv in Z.vars.items():
            node = Z.vnodes[k]
            v = m.eval(zv, model_completion=True)
            vals.append((node.node[1], node.node[2], _val_to_fraction(v)))
        fv = []
        for k, zv in Z.fapps.items():
            try:
                fv.append((k[0], _val_to_fraction(m.eval(zv, model_completion=True))))
            except Exception:   # noqa: BLE001
                pass
        iv = {}
        for a, zv in Z.iatoms.items():
            iv[a] = _val_to_fraction(m.eval(zv, model_completion=True))
        return 'refuted', 'z3', {'vars': vals, 'fapps': fv, 'iatoms': iv}
    STATS['unknown'] += 1
    if not last_resort:
        return 'unknown', 'z3:%s' % s.reason_unknown(), None
    # second back end: cvc5 on the SMT-LIB text
    r2 = _cvc5_check(s, timeout_s=max(5, timeout_ms // 1000))
    if r2 == 'unsat':
        return 'proved', 'cvc5', None
    return 'unknown', 'z3:%s cvc5:%s' % (s.reason_unknown(), r2), None


def _cvc5_limits():
    import resource
    resource.setrlimit(resource.RLIMIT_AS, (6 * 1024 ** 3, 6 * 1024 ** 3))


def _cvc5_check(solver, timeout_s=30):
    """the same query (SMT-LIB text of the z3 solver) decided by cvc5 1.4 (Python wheel; the Debian CLI build has no
    libpoly, hence no --nl-cov) in a CHILD process: hard wall-clock timeout and a 6 GB address-space limit"""
    import sys
    t0 = time.time()
    STATS['cvc5_calls'] += 1
    try:
        txt = ('(set-logic QF_UFNRA)\n' if USE_UF[0] else '(set-logic QF_NRA)\n') + solver.to_smt2()
        txt = txt.replace('(set-info :status unknown)', '')
        root = os.path.dirname(os.path.dirname(os.path.abspath(__file__)))
        p = subprocess.run([sys.executable, '-m', 'fvverif.cvc5worker', str(int(timeout_s * 1000))], input=txt,
                           capture_output=True, text=True, timeout=timeout_s + 3, cwd=root, preexec_fn=_cvc5_limits)
        out = (p.stdout or '').strip().splitlines()
        return out[-1] if out else 'error:%s' % (p.stderr or '')[-120:]
    except subprocess.TimeoutExpired:
        return 'timeout'
    except Exception as e:   # noqa: BLE001
        return 'error:%s' % str(e)[:200]
    finally:
        STATS['cvc5_seconds'] += time.time() - t0
