"""C01 conservation"""
from .common import jobs_for
LEVEL = 'proof'
LEVEL_TEXT = "interior-face flux cancellation (volume-weighted, with the real cellvolume), locality of face coefficients, row/column structure and 'total = sum of axis parts' are discharged per axis for a symbolic interior cell: one obligation covers every N, spacing, coefficient and field. 45 builders x 9 grids."
LEVEL_NOTE = 'whole-domain statement (sum over cells telescopes to boundary faces) follows from the per-cell flux-form clauses by the Lean lemmas flux_form_sum / telescope (checked on every run; correspondence by inspection); closed systems are stated both for the reported ghost values (explicit steps) and for any field satisfying the traced boundary rows (implicit steps); solver-level corollaries via the solvePDE contract (C04); floating point treated as real (A1); SphericalGrid3D is a recorded finding'
NOT_MACHINE_CHECKED = ['correspondence between the SMT-proved per-cell flux-form / cancellation clauses and the hypotheses of the Lean lemmas flux_form_sum / telescope / invariant_iterate (per axis, per line of cells)', "'to rounding': the identities hold in exact real arithmetic (A1)", 'implicit steps: the new field satisfies the assembled rows (C04 contract) with a solver assumed exact (A4)']
MODULES = ['contracts.ops', 'contracts.canaries']
TRUSTED = ['A1', 'A2', 'A5', 'A6', 'UF']


def jobs(tier):
    return jobs_for('C01', MODULES, tier)


def extra(tier, seed):
    from fvverif.lean import lemma_status
    ok, detail = lemma_status(['flux_form_sum', 'telescope', 'invariant_iterate'], rebuild=(tier == 'thorough'))
    return [('lean lemmas flux_form_sum/telescope (per-cell flux form => domain sum changes only through boundary faces)', ok, 'lean:' + detail)]
