"""C14 variable algebra"""
from .common import jobs_for
LEVEL = 'proof'
LEVEL_TEXT = 'for every operator / reflected operator / comparison / logical operator / neg / abs / pow of CellVariable and FaceVariable and for funceval, celleval, faceeval (incl. an identity function), with variable, scalar and ndarray operands: the result element equals the operator applied to the operand elements for a symbolic cell (face); the write log contains no buffer reachable from an operand and no attribute of an operand is re-bound; result buffers and BC / BoundaryFace objects are disjoint from the operands; the result BCs equal the left-most variable operand coefficient by coefficient and the result ghosts satisfy them; copy() and update_value() contracts (C09) complete the independence claim'
LEVEL_NOTE = 'expression trees of any depth follow by induction from the per-operator contracts; heap facts come from the model buffer ids / write log (A2) and are cross-checked natively with numpy.shares_memory and before/after snapshots on every run; faceeval with an identity-like function is a recorded finding'
NOT_MACHINE_CHECKED = ['expression trees of arbitrary depth: induction over the tree from the per-operator contracts', 'numpy.float64 scalars on the LEFT of a variable are handled by numpy itself (result is a plain ndarray); the contracts use Python floats there']
MODULES = ['contracts.algebra', 'contracts.state']
TRUSTED = ['A1', 'A2', 'A5', 'A6', 'UF']


def jobs(tier):
    return jobs_for('C14', MODULES, tier)
