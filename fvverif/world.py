"""Two interpretations of one scenario/clause text: SymWorld (symbolic sizes, element variables, formulas) and
RealWorld (concrete numpy run of the real code).  Obligations are written once against this small API."""
import itertools
import math
import random
from fractions import Fraction
from .ints import IExpr, ICond, I, CTX, OutOfReach, NeedSplit, Lin
from .reals import R, B, NAN, evaluate
from . import trace as T
from .trace import (pf, real_np, real_sp, GRIDS, AX, SIZE_NAMES, SymSource, RealSource, make_mesh, make_facevar,
                    make_rawcell, RawCell, face_shapes, cell_shape_ghost, installed, Env)
from .arrays import SymNDArray, lin_atom
from .npshim import SymSparse, NP

IDX_NAMES = ('i', 'j', 'k')


class World:
    def __init__(self, grid):
        self.grid = grid
        self.info = GRIDS[grid]
        self.nd = self.info['nd']
        self._mesh = None

    @property
    def N(self):
        return [self.src.size(a) for a in range(self.nd)]

    @property
    def mesh(self):
        if self._mesh is None:
            self._mesh = make_mesh(self.src, self.grid)
        return self._mesh

    def sibling(self, grid, axmap):
        """a world of the same kind for another grid class over the same inputs; axis a of the sibling is axis
        axmap[a] of this world (embedding into fewer dimensions, axis permutation)"""
        import copy as _copy
        from .trace import AxisMappedSource
        w2 = _copy.copy(self)
        World.__init__(w2, grid)
        w2.src = AxisMappedSource(self.src, axmap)
        if self.symbolic:
            w2.P = tuple(self.P[axmap[a]] for a in range(w2.nd))
        w2._mesh = None
        return w2

    def decoy(self):
        """a world over the SAME mesh whose arrays / scalars have other names (trace.DecoySource)"""
        import copy as _copy
        from .trace import DecoySource
        mesh = self.mesh
        w2 = _copy.copy(self)
        w2.src = DecoySource(self.src)
        w2._mesh = mesh
        if self.symbolic:
            w2.kinds = {}
        if hasattr(w2, '_psi'):
            del w2._psi
        return w2

    def extrude(self, arr, keep_axes, shape):
        """array of `shape` that equals arr along keep_axes and is constant along the others"""
        if self.symbolic:
            snap = arr.snap()
            return SymNDArray.from_fn(shape, (lambda idx: snap(tuple(idx[a] for a in keep_axes))), 'real', origin='extrude')
        a = real_np.asarray(arr, dtype=float)
        idx = [None] * len(shape)
        for t, ax in enumerate(keep_axes):
            idx[ax] = slice(None)
        a2 = a[tuple(idx)]
        return real_np.broadcast_to(a2, tuple(int(x) for x in shape)).copy()

    def flip(self, arr, axis, negate=False):
        """arr reversed along `axis` (optionally negated)"""
        if self.symbolic:
            snap = arr.snap()
            n = I(arr.shape[axis])
            sgn = -1 if negate else 1

            def fn(idx):
                j = list(idx)
                j[axis] = n - 1 - I(idx[axis])
                v = snap(tuple(j))
                return -R.of(v) if negate else v
            return SymNDArray.from_fn(arr.shape, fn, 'real', origin='flip')
        a = real_np.flip(real_np.asarray(arr, dtype=float), axis).copy()
        return -a if negate else a

    def mirrored_mesh(self, axis):
        """the same grid reflected along `axis`: faces f'[k] = -f[N-k]"""
        fm = [None] * self.nd
        fm[axis] = lambda f: self.flip(f, 0, negate=True)
        return make_mesh(self.src, self.grid, facemap=fm)

    def scaled_mesh(self, facescale):
        return make_mesh(self.src, self.grid, facescale=facescale)

    def facevar_on(self, mesh, prefix):
        return make_facevar(self.src, mesh, self.grid, prefix)

    def facevar(self, prefix, kind=None):
        if kind is not None:
            for a in range(self.nd):
                self.constrain(prefix + AX[a], kind)
        return make_facevar(self.src, self.mesh, self.grid, prefix)

    def rawcell(self, name, kind=None):
        if kind is not None:
            self.constrain(name, kind)
        return make_rawcell(self.src, self.mesh, self.grid, name)

    def array(self, name, shape, kind=None):
        if kind is not None:
            self.constrain(name, kind)
        return self.src.arr(name, shape)

    def scalar(self, name, kind=None):
        if kind is not None:
            self.constrain(name, kind)
        return self.src.scalar(name)

    def ghost_shape(self):
        return cell_shape_ghost(self.N, self.nd)

    def face_shape(self, a):
        return face_shapes(self.N, self.nd)[a]


class SymWorld(World):
    symbolic = True

    def __init__(self, grid):
        super().__init__(grid)
        self.src = SymSource()
        self.kinds = {}
        self.P = tuple(IExpr.sym(n) for n in IDX_NAMES[:self.nd])
        self.np = NP

    def constrain(self, name, kind):
        self.kinds[name] = kind

    # ---- index helpers
    def lin(self, P):
        P = tuple(I(p) for p in P)
        if self.nd == 1:
            return P[0]
        return lin_atom(self.ghost_shape(), P)

    def unlin(self, c):
        c = I(c)
        if self.nd == 1:
            return (c,)
        l = c.as_lin()
        if l is None:
            raise OutOfReach('column index %s is not a cell index' % (c,))
        return l.idx

    def interior(self, P=None):
        P = self.P if P is None else P
        conds = []
        for a in range(self.nd):
            conds += [I(P[a]) >= 1, I(P[a]) <= self.N[a]]
        return conds

    # ---- values
    def at(self, arr, idx):
        if not isinstance(arr, SymNDArray):
            return arr
        return arr.at(tuple(I(i) for i in idx))

    def vec(self, v, P):
        """entry of a cell-indexed vector at cell P"""
        return R.of(v.at((self.lin(P),)))

    def apply(self, M, phi, P):
        """(M phi)[P] for a matrix over cells and a cell array phi (incl. ghosts)"""
        return M.matvec_row(self.lin(P), lambda c: phi.at(self.unlin(c)))

    def row(self, M, P):
        """[(column cell index tuple, coefficient)]"""
        return [(self.unlin(c), v) for c, v in M.row_entries(self.lin(P))]

    def col(self, M, P):
        return [(self.unlin(r), v) for r, v in M.col_entries(self.lin(P))]

    def const(self, x):
        return R.of(x)

    def where(self, c, a, b):
        return R.ite(c, a, b)

    def fn(self, name, x):
        return R.fn(name, R.of(x))

    # ---- relations
    def eq(self, a, b):
        return R.of(a) == R.of(b)

    def le(self, a, b):
        return R.of(a) <= R.of(b)

    def lt(self, a, b):
        return R.of(a) < R.of(b)

    def true(self):
        return B.const(True)


class RealWorld(World):
    symbolic = False

    def __init__(self, grid, sizes, seed=0, partial=None):
        super().__init__(grid)
        self.rng = random.Random(seed)
        self.src = RealSource(list(sizes) + [1] * (3 - len(sizes)), self.rng)
        self.src.partial = partial or {}
        self.np = real_np
        self.tol = 1e-9
        self.scale = 1.0

    def constrain(self, name, kind):
        self.src.constraints[name] = kind

    def lin(self, P):
        if self.nd == 1:
            return int(P[0])
        shp = [n + 2 for n in self.N]
        l = 0
        for s, p in zip(shp, P):
            l = l * s + int(p)
        return l

    def interior_points(self):
        return list(itertools.product(*[range(1, n + 1) for n in self.N]))

    def at(self, arr, idx):
        if isinstance(arr, real_np.ndarray):
            return float(arr[tuple(int(i) for i in idx)])
        return float(arr)

    def vec(self, v, P):
        return float(v[self.lin(P)])

    def apply(self, M, phi, P):
        r = M.getrow(self.lin(P)) if hasattr(M, 'getrow') else M[[self.lin(P)], :]
        return float((r @ real_np.asarray(phi, dtype=float).ravel())[0])

    def _unlin(self, c):
        shp = [n + 2 for n in self.N]
        out = []
        for s in reversed(shp):
            out.append(c % s)
            c //= s
        return tuple(reversed(out))

    def row(self, M, P):
        r = real_sp.csr_array(M)[[self.lin(P)], :].tocoo()
        acc = {}
        for c, v in zip(r.col, r.data):
            acc[int(c)] = acc.get(int(c), 0.0) + float(v)
        return [(self._unlin(c), v) for c, v in acc.items()]

    def col(self, M, P):
        r = real_sp.csc_array(M)[:, [self.lin(P)]].tocoo()
        acc = {}
        for c, v in zip(r.row, r.data):
            acc[int(c)] = acc.get(int(c), 0.0) + float(v)
        return [(self._unlin(c), v) for c, v in acc.items()]

    def const(self, x):
        return float(x)

    def where(self, c, a, b):
        return a if c else b

    def fn(self, name, x):
        return getattr(math, name)(x)

    def _mag(self, a, b):
        return max(1.0, abs(a), abs(b))

    def eq(self, a, b):
        if not (math.isfinite(a) and math.isfinite(b)):
            return False
        return abs(a - b) <= self.tol * self._mag(a, b) * self.scale

    def le(self, a, b):
        if not (math.isfinite(a) and math.isfinite(b)):
            return False
        return a <= b + self.tol * self._mag(a, b) * self.scale

    def lt(self, a, b):
        return self.le(a, b)

    def true(self):
        return True


def default_sizes(nd, rng):
    return [rng.choice([1, 2, 3, 4]) for _ in range(nd)]
