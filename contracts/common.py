"""Shared helpers for the sidecar contracts (clauses on the real pyfvtool functions)."""
from fvverif.oblig import Ob
from fvverif.trace import MODS, GRIDS, AX, pf
from fvverif.ints import I, CTX, ICond
from fvverif.reals import R, B, variables, subst_vars

adv = MODS['advection']
dif = MODS['diffusion']
cal = MODS['calculus']
avg = MODS['averaging']
bnd = MODS['boundary']
src_ = MODS['source']
msh = MODS['mesh']
cel = MODS['cell']
fac = MODS['face']
utl = MODS['utilities']
pde = MODS['pdesolver']

SUF = {'Grid1D': '1D', 'CylindricalGrid1D': 'Cylindrical1D', 'SphericalGrid1D': 'Spherical1D',
       'Grid2D': '2D', 'CylindricalGrid2D': 'Cylindrical2D', 'PolarGrid2D': 'Polar2D',
       'Grid3D': '3D', 'CylindricalGrid3D': 'Cylindrical3D', 'SphericalGrid3D': 'Spherical3D'}

ALL = tuple(GRIDS)


def builder(mod, stem, grid):
    return getattr(mod, stem + SUF[grid])


def qual(mod, stem, grid):
    return '%s.%s%s' % (mod.__name__, stem, SUF[grid])


def parts(ret):
    """(total, [axis parts]) of a builder's return value"""
    if isinstance(ret, tuple):
        return ret[0], list(ret[1:])
    return ret, [ret]


def axes_of(w):
    return range(w.nd)


def shift(P, a, d):
    P = list(P)
    P[a] = P[a] + d
    return tuple(P)


def face_idx(P, a, side):
    """index into the a-face array of the lower (side=0) / upper (side=1) face of cell P (cell indices incl. ghosts:
    interior cell i has faces i-1 and i; the other axes drop the ghost offset)"""
    idx = [p - 1 for p in P]
    idx[a] = P[a] - 1 + side
    return tuple(idx)


def cell_volume(w, S, P):
    """mesh.cellvolume at interior cell P (cell indices incl. ghosts -> volume array index P-1)"""
    return w.at(S['V'], tuple(p - 1 for p in P))


class AxisOb(Ob):
    """claims stated per axis (one explored part per axis keeps the index regions of the axes from multiplying)"""
    def parts(self, w):
        return list(range(w.nd))
