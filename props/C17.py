"""C17 unit-system invariance and linearity in coefficients"""
from .common import jobs_for
LEVEL = 'proof'
LEVEL_TEXT = 'relational obligations between two traces of the real builders on one symbolic grid and on the same grid with lengths x L (angles unchanged), coefficients and data rescaled by their physical dimension with symbolic L, T, K > 0: every matrix term applied to K*phi, every vector term, transient, sources scale by K/T, boundary ghost values by K, the limiter receives the unchanged gradient ratio; additivity and homogeneity of every term in its coefficient field (upwind / TVD at fixed upwind direction)'
LEVEL_NOTE = 'every interior row of the assembled system scales by K/T and every boundary row by K, so the solution scales by K for any number of steps (uniqueness of the solution of a non-singular system, A4); the TVD term is exactly invariant only outside the absolute guard band of _fsign (|difference quotient| >= 1e-16 or exactly 0 in both unit systems): this precondition is explicit in the obligation'
NOT_MACHINE_CHECKED = ['solution level: every assembled row scales by a positive factor and the unknown by K (proved per row) => the solution scales by K (Lean scaled_solution / unique_solution, non-singularity assumed A4); several steps by iteration', 'inside the absolute guard band 0 < |difference| < 1e-16 of _fsign the TVD term is not exactly scale invariant (explicit precondition of the obligation)']
MODULES = ['contracts.units']
TRUSTED = ['A1', 'A2', 'A4', 'A5', 'A6', 'UF']


def jobs(tier):
    return jobs_for('C17', MODULES, tier)


def extra(tier, seed):
    from fvverif.lean import lemma_status
    ok, detail = lemma_status(['scaled_solution', 'unique_solution', 'invariant_iterate'], rebuild=(tier == 'thorough'))
    return [('lean lemmas scaled_solution/unique_solution/invariant_iterate: rows scaled by positive factors, unknown scaled by K (SMT, per row) => the solution scales by K; several steps by iteration', ok, 'lean:' + detail)]
