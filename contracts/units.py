"""C17: linearity of every term in its coefficient field, and invariance under a change of the unit system
(lengths x L, time x T, field x K; angles unchanged)."""
from .common import *
from .ops import sym_limiter
from .bc import make_bc, boundary_cell, SIDES, side_shape
from fvverif import trace as T
from fvverif.arrays import SymNDArray

# which axes of each grid are lengths (True) or angles (False)
LENGTH_AXES = {
    'Grid1D': (True,), 'Grid2D': (True, True), 'Grid3D': (True, True, True),
    'CylindricalGrid1D': (True,), 'CylindricalGrid2D': (True, True), 'PolarGrid2D': (True, False),
    'CylindricalGrid3D': (True, False, True), 'SphericalGrid1D': (True,), 'SphericalGrid3D': (True, False, False),
}


class _Linearity(AxisOb):
    """T(k1 + k2) = T(k1) + T(k2) and T(s*k) = s*T(k) for the coefficient field k"""
    props = ('C17',)
    stem, mod, kind = None, None, 'M'

    def build(self, w, k, phi):
        return builder(self.mod, self.stem, w.grid)(k)

    def setup(self, w):
        k1 = w.facevar('ka')
        k2 = w.facevar('kb')
        s = w.scalar('s')
        phi = w.rawcell('phi')
        t1, p1 = parts(self.build(w, k1, phi))
        t2, p2 = parts(self.build(w, k2, phi))
        t12, p12 = parts(self.build(w, k1 + k2, phi))
        ts, ps = parts(self.build(w, s * k1, phi))
        return dict(p1=p1, p2=p2, p12=p12, ps=ps, s=s, phi=phi._value)

    def val(self, w, S, X, P):
        return w.apply(X, S['phi'], P) if self.kind == 'M' else w.vec(X, P)

    def claims(self, w, S, P, a):
        v1, v2 = self.val(w, S, S['p1'][a], P), self.val(w, S, S['p2'][a], P)
        return [('additive_in_coefficient[%s]' % AX[a], w.eq(self.val(w, S, S['p12'][a], P), v1 + v2)),
                ('homogeneous_in_coefficient[%s]' % AX[a], w.eq(self.val(w, S, S['ps'][a], P), S['s'] * v1))]


class DiffLinear(_Linearity):
    name = 'diffusionTerm/linear_in_D'
    stem, mod = 'diffusionTerm', dif


class ConvLinear(_Linearity):
    name = 'convectionTerm/linear_in_u'
    stem, mod = 'convectionTerm', adv


class DivLinear(_Linearity):
    name = 'divergenceTerm/linear_in_F'
    stem, mod, kind = 'divergenceTerm', cal, 'V'


class UpwindLinear(_Linearity):
    """at fixed upwind direction (explicit u_upwind)"""
    name = 'convectionUpwindTerm/linear_in_u_at_fixed_direction'
    stem, mod = 'convectionUpwindTerm', adv

    def build(self, w, k, phi):
        if not hasattr(self, '_uu') or self._uu[0] is not w:
            self._uu = (w, w.facevar('uu'))
        return builder(adv, 'convectionUpwindTerm', w.grid)(k, self._uu[1])


class TvdLinear(_Linearity):
    name = 'convectionTvdRHS/linear_in_u_at_fixed_direction'
    stem, mod, kind = 'convectionTvdRHS', adv, 'V'

    def build(self, w, k, phi):
        if not hasattr(self, '_uu') or self._uu[0] is not w:
            self._uu = (w, w.facevar('uu'), sym_limiter(w))
        return builder(adv, 'convectionTvdRHS', w.grid)(k, phi, self._uu[2], self._uu[1])


class _UnitOb(AxisOb):
    props = ('C17',)

    def scales(self, w):
        L = w.scalar('Lu', 'pos')
        Tt = w.scalar('Tu', 'pos')
        K = w.scalar('Ku', 'pos')
        fs = [(L if LENGTH_AXES[w.grid][a] else 1) for a in range(w.nd)]
        return L, Tt, K, fs

    def scaled_facevar(self, w, mesh2, base, factor):
        comps = [getattr(base, '_' + AX[a] + 'value') * factor for a in range(w.nd)]
        while len(comps) < 3:
            comps.append(w.np.array([]))
        return fac.FaceVariable(mesh2, comps[0], comps[1], comps[2])


class DiffUnits(_UnitOb):
    """faces x L, D x L^2/T, phi x K  =>  (M phi) x K/T"""
    name = 'diffusionTerm/unit_invariance'
    d_length_power = 2

    def setup(self, w):
        L, Tt, K, fs = self.scales(w)
        D = w.facevar('D')
        phi = w.rawcell('phi')
        m2 = w.scaled_mesh(fs)
        D2 = self.scaled_facevar(w, m2, D, (L * L if self.d_length_power == 2 else L) / Tt)
        M, ps = parts(builder(dif, 'diffusionTerm', w.grid)(D))
        M2, ps2 = parts(builder(dif, 'diffusionTerm', w.grid)(D2))
        return dict(ps=ps, ps2=ps2, phi=phi._value, phi2=phi._value * K, f=K / Tt)

    def claims(self, w, S, P, a):
        if not w.symbolic:
            w.scale = 1e3
        return [('scales_as_K_over_T[%s]' % AX[a],
                 w.eq(w.apply(S['ps2'][a], S['phi2'], P), S['f'] * w.apply(S['ps'][a], S['phi'], P)))]


class ConvUnits(_UnitOb):
    """faces x L, u x L/T, phi x K  =>  (M phi) x K/T  (central and upwind)"""
    name = 'convectionTerm+Upwind/unit_invariance'

    def setup(self, w):
        L, Tt, K, fs = self.scales(w)
        u = w.facevar('u')
        phi = w.rawcell('phi')
        m2 = w.scaled_mesh(fs)
        u2 = self.scaled_facevar(w, m2, u, L / Tt)
        out = dict(phi=phi._value, phi2=phi._value * K, f=K / Tt)
        for nm in ('convectionTerm', 'convectionUpwindTerm'):
            out[nm] = parts(builder(adv, nm, w.grid)(u))[1]
            out[nm + '2'] = parts(builder(adv, nm, w.grid)(u2))[1]
        out['div'] = parts(builder(cal, 'divergenceTerm', w.grid)(u))[1]
        out['div2'] = parts(builder(cal, 'divergenceTerm', w.grid)(u2))[1]
        out['fdiv'] = 1 / Tt
        return out

    def claims(self, w, S, P, a):
        if not w.symbolic:
            w.scale = 1e3
        res = []
        for nm in ('convectionTerm', 'convectionUpwindTerm'):
            res.append(('%s_scales_as_K_over_T[%s]' % (nm, AX[a]),
                        w.eq(w.apply(S[nm + '2'][a], S['phi2'], P), S['f'] * w.apply(S[nm][a], S['phi'], P))))
        res.append(('divergence_scales_as_1_over_T[%s]' % AX[a], w.eq(w.vec(S['div2'][a], P), S['fdiv'] * w.vec(S['div'][a], P))))
        return res


class TvdUnits(_UnitOb):
    """TVD correction x K/T; the limiter sees the unchanged gradient ratio.  Precondition (made explicit by this
    obligation): every successive difference is either exactly 0 or at least _fsign's absolute threshold 1e-16 in
    magnitude in BOTH unit systems -- inside the guard band the term is not scale invariant.
    Two clauses: (a) every gradient-ratio array handed to the limiter is the same in both unit systems;
    (b) with the limiter therefore returning the same values, the correction scales by K/T."""
    name = 'convectionTvdRHS/unit_invariance_outside_the_eps_band'

    def parts(self, w):
        return ['ratios'] + list(range(w.nd))

    def setup(self, w):
        L, Tt, K, fs = self.scales(w)
        u = w.facevar('u')
        phi = w.rawcell('phi')
        m2 = w.scaled_mesh(fs)
        u2 = self.scaled_facevar(w, m2, u, L / Tt)
        phi2 = T.RawCell(m2, phi._value * K)
        if not w.symbolic:
            FL = pf.fluxLimiter('Koren')
            V, vs = parts(builder(adv, 'convectionTvdRHS', w.grid)(u, phi, FL))
            V2, vs2 = parts(builder(adv, 'convectionTvdRHS', w.grid)(u2, phi2, FL))
            return dict(vs=vs, vs2=vs2, f=K / Tt, K=K, L=L, phi=phi._value, calls1=[], calls2=[])
        base = sym_limiter(w) if getattr(w, 'choice_rng', None) is None else pf.fluxLimiter('Koren')
        calls1, calls2 = [], []

        def FL1(r):
            out = base(r)
            calls1.append((r, out))
            return out

        def FL2(r):
            k = len(calls2)
            calls2.append(r)
            return calls1[k][1]            # the same limiter values: justified by clause (a) and FL being a function
        V, vs = parts(builder(adv, 'convectionTvdRHS', w.grid)(u, phi, FL1))
        V2, vs2 = parts(builder(adv, 'convectionTvdRHS', w.grid)(u2, phi2, FL2))
        return dict(vs=vs, vs2=vs2, f=K / Tt, K=K, L=L, phi=phi._value, calls1=calls1, calls2=calls2)

    def _band_hyp(self, w, S, exprs, allow_zero=True):
        """eps-band hypothesis on exactly the element variables of phi that occur: for every pair of cells adjacent
        along some axis whose values both occur, the difference quotient is 0 or >= eps in magnitude, in both unit
        systems"""
        from fvverif.reals import variables
        eps = R.const(1e-16)
        seen = {}
        for e in exprs:
            for v in variables(R.of(e)):
                if v.node[1] == 'phi':
                    seen[tuple(I(i).key() for i in v.node[2])] = v.node[2]
        hyp = B.const(True)
        idxs = list(seen.values())
        for i1 in idxs:
            for i2 in idxs:
                for a in range(w.nd):
                    adj = all(CTX.decide(I(x) == (I(y) + (1 if b == a else 0))) for b, (x, y) in enumerate(zip(i2, i1)))
                    if not adj:
                        continue
                    cs = getattr(w.mesh.cellsize, '_' + AX[a])
                    dist = (w.at(cs, (i1[a],)) + w.at(cs, (i2[a],))) / 2
                    g = (w.at(S['phi'], i2) - w.at(S['phi'], i1)) / dist
                    sl = S['L'] if LENGTH_AXES[w.grid][a] else 1
                    for x in (R.of(g), R.of(g) * S['K'] / sl):
                        hyp = hyp & (((x == 0) | (x >= eps) | (x <= -eps)) if allow_zero else ((x >= eps) | (x <= -eps)))
        return hyp

    def claims(self, w, S, P, part):
        if not w.symbolic:
            if part == 'ratios':
                return []
            w.scale = 1e3
            return [('scales_as_K_over_T[%s]' % AX[part], w.eq(w.vec(S['vs2'][part], P), S['f'] * w.vec(S['vs'][part], P)))]
        if part == 'ratios':
            out = []
            for k, ((r1, o1), r2) in enumerate(zip(S['calls1'], S['calls2'])):
                # generic element of the ratio array: index P-1 shifted into range (arrays have interior extents)
                idx = tuple(I(p) - 1 for p in P)
                ok = all(CTX.decide((I(x) >= 0) & (I(x) < I(n))) for x, n in zip(idx, r1.shape))
                if not ok:
                    continue
                a1, a2 = r1.at(idx), r2.at(idx)
                # where the downstream difference is exactly 0 the ratio is not invariant (the eps of _fsign is absolute),
                # but there the limiter value is multiplied by that same zero difference: clause (b) covers it
                out.append(('limiter_argument_unchanged_where_it_matters[call %d]' % k,
                            self._band_hyp(w, S, [a1, a2], allow_zero=False).implies(R.of(a1) == R.of(a2))))
            return out
        lhs, rhs = w.vec(S['vs2'][part], P), S['f'] * w.vec(S['vs'][part], P)
        return [('scales_as_K_over_T[%s]' % AX[part], self._band_hyp(w, S, [lhs, rhs]).implies(R.of(lhs) == R.of(rhs)))]


class BCUnits(_UnitOb):
    """boundary a x L (length-like normal direction), b unchanged, c x K, phi x K: ghost values x K and boundary rows x K"""
    name = 'boundary/unit_invariance'

    def parts(self, w):
        return [(a, s) for a in range(w.nd) for s in (0, 1)]

    def setup(self, w):
        L, Tt, K, fs = self.scales(w)
        m2 = w.scaled_mesh(fs)
        BC, coefs = make_bc(w, 'n' * w.nd)
        BC2 = bnd.BoundaryConditions(m2)
        for a in range(w.nd):
            for s, side in enumerate(SIDES[a]):
                f1, f2 = getattr(BC, side), getattr(BC2, side)
                f2.a = f1.a * (L if True else 1)       # a multiplies d(phi)/dn in physical length units: x L
                f2.b = f1.b * 1
                f2.c = f1.c * K
        inner = w.array('inner', tuple(w.N))
        g1 = bnd.cellValuesWithBoundaries(inner, BC)
        g2 = bnd.cellValuesWithBoundaries(inner * K, BC2)
        M1, R1 = bnd.boundaryConditionsTerm(BC)
        M2, R2 = bnd.boundaryConditionsTerm(BC2)
        psi = w.rawcell('psi')._value
        return dict(g1=g1, g2=g2, K=K, coefs=coefs, M1=M1, R1=R1, M2=M2, R2=R2, psi=psi, psiK=psi * K)

    def claims(self, w, S, P, part):
        from .bc import ghost_denominator
        a, s = part
        Q, G = boundary_cell(w, P, a, s)
        den = ghost_denominator(w, S['coefs'], a, s, Q)
        e = w.eq(w.at(S['g2'], G), S['K'] * w.at(S['g1'], G))
        # the boundary EQUATIONS (what the implicit solver uses): row of the rescaled problem applied to K*psi = K * row
        r1 = w.apply(S['M1'], S['psi'], G) - w.vec(S['R1'], G)
        r2 = w.apply(S['M2'], S['psiK'], G) - w.vec(S['R2'], G)
        rows = ('boundary_rows_scale_with_K[%s]' % SIDES[a][s], w.eq(r2, S['K'] * r1))
        if w.symbolic:
            return [('ghost_values_scale_with_K[%s]' % SIDES[a][s], (R.of(den) != 0).implies(e)), rows]
        w.scale = 1e4
        if abs(den) <= 1e-6:
            return [rows]
        return [('ghost_values_scale_with_K[%s]' % SIDES[a][s], e), rows]


class SourceUnits(_UnitOb):
    """beta x 1/T, gamma x K/T, dt x T, alpha unchanged"""
    name = 'sources+transient/unit_invariance'

    def parts(self, w):
        return [None]

    def setup(self, w):
        from .solver import make_cellvar
        L, Tt, K, fs = self.scales(w)
        beta, _ = make_cellvar(w, 'beta', bc=False)
        gam, _ = make_cellvar(w, 'gamma', bc=False)
        old, _ = make_cellvar(w, 'old', bc=False)
        dt = w.scalar('dt', 'pos')
        phi = w.rawcell('phi')
        Ms = src_.linearSourceTerm(beta)
        Ms2 = src_.linearSourceTerm(beta / Tt)
        Rg = src_.constantSourceTerm(gam)
        Rg2 = src_.constantSourceTerm(gam * K / Tt)
        Mt, Rt = src_.transientTerm(old, dt, 1.0)
        Mt2, Rt2 = src_.transientTerm(old * K, dt * Tt, 1.0)
        return dict(Ms=Ms, Ms2=Ms2, Rg=Rg, Rg2=Rg2, Mt=Mt, Rt=Rt, Mt2=Mt2, Rt2=Rt2, phi=phi._value, phi2=phi._value * K, f=K / Tt)

    def claims(self, w, S, P, part=None):
        f = S['f']
        if not w.symbolic:
            w.scale = 1e3
        return [('linear_source_scales', w.eq(w.apply(S['Ms2'], S['phi2'], P), f * w.apply(S['Ms'], S['phi'], P))),
                ('constant_source_scales', w.eq(w.vec(S['Rg2'], P), f * w.vec(S['Rg'], P))),
                ('transient_matrix_scales', w.eq(w.apply(S['Mt2'], S['phi2'], P), f * w.apply(S['Mt'], S['phi'], P))),
                ('transient_rhs_scales', w.eq(w.vec(S['Rt2'], P), f * w.vec(S['Rt'], P)))]

