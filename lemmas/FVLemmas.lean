/-
Lemmas that turn the per-cell clauses proved by SMT into the whole-domain statements of the properties
(DESIGN.md 2.5).  Checked by `lean lemmas/FVLemmas.lean` (Lean 4 + Mathlib, offline).
-/
import Mathlib
open Finset BigOperators

namespace FV

/-- Discrete maximum principle, upper bound (C07).
`off P Q` = minus the (ghost-eliminated) off-diagonal of row `P`, `w P k` = weight of datum `d k`
(old value of the cell, Dirichlet data), `s P = beta_P + (div u)_P >= 0`. -/
theorem dmp_upper {ι κ : Type*} [Fintype ι] [Fintype κ] [Nonempty ι]
    (x : ι → ℝ) (d : κ → ℝ) (off : ι → ι → ℝ) (w : ι → κ → ℝ) (s diag : ι → ℝ) (B : ℝ)
    (hoff : ∀ P Q, 0 ≤ off P Q) (hw : ∀ P k, 0 ≤ w P k) (hs : ∀ P, 0 ≤ s P)
    (hdiag : ∀ P, diag P = ∑ Q, off P Q + ∑ k, w P k + s P)
    (hpos : ∀ P, 0 < ∑ k, w P k)
    (hrow : ∀ P, diag P * x P = ∑ Q, off P Q * x Q + ∑ k, w P k * d k)
    (hd : ∀ k, d k ≤ B) (hB : 0 ≤ B) :
    ∀ P, x P ≤ B := by
  obtain ⟨M, -, hM⟩ := Finset.exists_max_image (Finset.univ : Finset ι) x Finset.univ_nonempty
  have hMle : ∀ Q, x Q ≤ x M := fun Q => hM Q (Finset.mem_univ Q)
  have h1 : ∑ Q, off M Q * x Q ≤ (∑ Q, off M Q) * x M := by
    rw [Finset.sum_mul]
    exact Finset.sum_le_sum fun Q _ => mul_le_mul_of_nonneg_left (hMle Q) (hoff M Q)
  have h2 : ∑ k, w M k * d k ≤ (∑ k, w M k) * B := by
    rw [Finset.sum_mul]
    exact Finset.sum_le_sum fun k _ => mul_le_mul_of_nonneg_left (hd k) (hw M k)
  have hr := hrow M
  rw [hdiag M] at hr
  have key : (∑ k, w M k + s M) * x M ≤ (∑ k, w M k) * B := by nlinarith
  have hW := hpos M
  have hxM : x M ≤ B := by
    by_contra hcon
    push_neg at hcon
    have : (∑ k, w M k) * B < (∑ k, w M k + s M) * x M := by
      have hx0 : 0 < x M := lt_of_le_of_lt hB hcon
      nlinarith [hs M, mul_pos hW (sub_pos.mpr hcon), mul_nonneg (hs M) hx0.le]
    linarith
  intro P
  exact (hMle P).trans hxM

/-- lower bound: the same lemma applied to `-x`, `-d`. -/
theorem dmp_lower {ι κ : Type*} [Fintype ι] [Fintype κ] [Nonempty ι]
    (x : ι → ℝ) (d : κ → ℝ) (off : ι → ι → ℝ) (w : ι → κ → ℝ) (s diag : ι → ℝ) (A : ℝ)
    (hoff : ∀ P Q, 0 ≤ off P Q) (hw : ∀ P k, 0 ≤ w P k) (hs : ∀ P, 0 ≤ s P)
    (hdiag : ∀ P, diag P = ∑ Q, off P Q + ∑ k, w P k + s P)
    (hpos : ∀ P, 0 < ∑ k, w P k)
    (hrow : ∀ P, diag P * x P = ∑ Q, off P Q * x Q + ∑ k, w P k * d k)
    (hd : ∀ k, A ≤ d k) (hA : A ≤ 0) :
    ∀ P, A ≤ x P := by
  have h := dmp_upper (fun P => -x P) (fun k => -d k) off w s diag (-A) hoff hw hs hdiag hpos
    (by
      intro P
      have := hrow P
      simp only [mul_neg, Finset.sum_neg_distrib]
      linarith)
    (by intro k; linarith [hd k]) (by linarith)
  intro P
  have := h P
  linarith

/-- telescoping (C01: interior face fluxes cancel in the volume-weighted sum; C10: sum of cell volumes). -/
theorem telescope (G : ℕ → ℝ) (n : ℕ) : ∑ i ∈ Finset.range n, (G (i + 1) - G i) = G n - G 0 :=
  Finset.sum_range_sub G n

/-- conservation in flux form: if `V i * T i = A (i+1) * F (i+1) - A i * F i` for every cell, the volume-weighted sum
of the term is the difference of the two boundary-face fluxes. -/
theorem flux_form_sum (V T A F : ℕ → ℝ) (n : ℕ)
    (h : ∀ i, i < n → V i * T i = A (i + 1) * F (i + 1) - A i * F i) :
    ∑ i ∈ Finset.range n, V i * T i = A n * F n - A 0 * F 0 := by
  rw [Finset.sum_congr rfl (fun i hi => h i (Finset.mem_range.mp hi))]
  exact Finset.sum_range_sub (fun i => A i * F i) n

/-- weighted means: harmonic <= geometric <= arithmetic for the exp/log form of the geometric mean (C11). -/
theorem geom_le_arith (a b p q : ℝ) (ha : 0 < a) (hb : 0 < b) (hp : 0 < p) (hq : 0 < q) :
    Real.exp ((p * Real.log a + q * Real.log b) / (p + q)) ≤ (p * a + q * b) / (p + q) := by
  have hpq : 0 < p + q := by linarith
  have hw1 : 0 ≤ p / (p + q) := (div_pos hp hpq).le
  have hw2 : 0 ≤ q / (p + q) := (div_pos hq hpq).le
  have hsum : p / (p + q) + q / (p + q) = 1 := by field_simp
  have h := Real.geom_mean_le_arith_mean2_weighted hw1 hw2 ha.le hb.le hsum
  have e1 : Real.exp ((p * Real.log a + q * Real.log b) / (p + q)) = a ^ (p / (p + q)) * b ^ (q / (p + q)) := by
    rw [Real.rpow_def_of_pos ha, Real.rpow_def_of_pos hb, ← Real.exp_add]
    congr 1
    field_simp
  rw [e1]
  calc a ^ (p / (p + q)) * b ^ (q / (p + q)) ≤ p / (p + q) * a + q / (p + q) * b := h
    _ = (p * a + q * b) / (p + q) := by field_simp

theorem harm_le_geom (a b p q : ℝ) (ha : 0 < a) (hb : 0 < b) (hp : 0 < p) (hq : 0 < q) :
    (p + q) / (p / a + q / b) ≤ Real.exp ((p * Real.log a + q * Real.log b) / (p + q)) := by
  have hpq : 0 < p + q := by linarith
  -- apply geom_le_arith to 1/a, 1/b and invert
  have h := geom_le_arith (1 / a) (1 / b) p q (by positivity) (by positivity) hp hq
  have hlog : (p * Real.log (1 / a) + q * Real.log (1 / b)) / (p + q)
      = -((p * Real.log a + q * Real.log b) / (p + q)) := by
    rw [one_div, one_div, Real.log_inv, Real.log_inv]; ring
  rw [hlog, Real.exp_neg] at h
  have hden : 0 < p / a + q / b := by positivity
  have hE : 0 < Real.exp ((p * Real.log a + q * Real.log b) / (p + q)) := Real.exp_pos _
  have h2 : (Real.exp ((p * Real.log a + q * Real.log b) / (p + q)))⁻¹ ≤ (p / a + q / b) / (p + q) := by
    calc (Real.exp ((p * Real.log a + q * Real.log b) / (p + q)))⁻¹ ≤ (p * (1 / a) + q * (1 / b)) / (p + q) := h
      _ = (p / a + q / b) / (p + q) := by ring
  rw [div_le_iff₀ hden]
  have h3 := (inv_le_comm₀ hE (by positivity)).mp h2
  rw [inv_div] at h3
  calc p + q = (p + q) / (p / a + q / b) * (p / a + q / b) := by field_simp
    _ ≤ Real.exp ((p * Real.log a + q * Real.log b) / (p + q)) * (p / a + q / b) := by
        exact mul_le_mul_of_nonneg_right h3 hden.le

/-- uniqueness (C04, C06, C08, C12, C17): a non-singular system has at most one solution, so two field vectors that
satisfy the same (proved-identical) rows are equal. -/
theorem unique_solution {n : Type*} [Fintype n] [DecidableEq n] (A : Matrix n n ℝ) (hA : IsUnit A.det)
    (x y b : n → ℝ) (hx : A.mulVec x = b) (hy : A.mulVec y = b) : x = y := by
  have hinj := (Matrix.mulVec_injective_iff_isUnit (A := A)).mpr ((Matrix.isUnit_iff_isUnit_det A).mpr hA)
  exact hinj (hx.trans hy.symm)

/-- row scaling and rescaling of the unknown preserve solutions (C03 lambda*(a,b,c); C17 change of units):
if `A x = b`, every row `i` of `A'` is `r i` times row `i` of `A` with columns divided by `K ≠ 0`, and `b' i = r i * b i`,
then `K • x` solves the primed system. -/
theorem scaled_solution {n : Type*} [Fintype n] (A A' : Matrix n n ℝ) (x b b' r : n → ℝ) (K : ℝ) (hK : K ≠ 0)
    (hA : ∀ i j, A' i j = r i * A i j / K) (hb : ∀ i, b' i = r i * b i) (hx : A.mulVec x = b) :
    A'.mulVec (K • x) = b' := by
  funext i
  have h := congrFun hx i
  simp only [Matrix.mulVec, dotProduct] at h ⊢
  rw [hb i, ← h, Finset.mul_sum]
  apply Finset.sum_congr rfl
  intro j _
  rw [hA i j]
  simp only [Pi.smul_apply, smul_eq_mul]
  field_simp

/-- a property preserved by one step is preserved by any number of steps (C01: the domain integral; C07: the bounds;
C08: a shift by s cells from the shift by one; C09: the representation invariant along a history). -/
theorem invariant_iterate {α : Type*} (step : α → α) (P : α → Prop) (h : ∀ x, P x → P (step x)) (n : ℕ) (x : α)
    (hx : P x) : P (step^[n] x) := by
  induction n generalizing x with
  | zero => simpa using hx
  | succ k ih => rw [Function.iterate_succ_apply]; exact ih (step x) (h x hx)

/-- a steady solution is a fixed point of the backward-Euler step (C12): if `S x = b` then `x` solves
`(D + S) y = D x + b` for every diagonal `D = alpha/dt`; by `unique_solution` it is the only one. -/
theorem steady_is_fixed_point {n : Type*} [Fintype n] [DecidableEq n] (S : Matrix n n ℝ) (d x b : n → ℝ)
    (hx : S.mulVec x = b) : (Matrix.diagonal d + S).mulVec x = (Matrix.diagonal d).mulVec x + b := by
  rw [Matrix.add_mulVec, hx]

end FV

#print axioms FV.dmp_upper
#print axioms FV.dmp_lower
#print axioms FV.telescope
#print axioms FV.flux_form_sum
#print axioms FV.geom_le_arith
#print axioms FV.harm_le_geom
#print axioms FV.unique_solution
#print axioms FV.scaled_solution
#print axioms FV.invariant_iterate
#print axioms FV.steady_is_fixed_point
