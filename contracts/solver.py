"""C04 / C12 (+ source-term clauses of C06): solvePDE, solveMatrixPDE, solveExplicitPDE, transientTerm,
linearSourceTerm, constantSourceTerm on real CellVariable objects."""
import ast
import inspect
import os
import textwrap
from .common import *
from .bc import make_bc, boundary_cell, SIDES, robin_residual, ghost_denominator
from fvverif import trace as T
from fvverif import npshim
from fvverif.arrays import SymNDArray


def make_cellvar(w, name, pattern=None, bc=True):
    pattern = pattern or 'n' * w.nd
    vals = w.array(name, tuple(w.N))
    if bc:
        BC, coefs = make_bc(w, pattern, prefix=name + '_')
        return cel.CellVariable(w.mesh, vals, BC), coefs
    return cel.CellVariable(w.mesh, vals), None


def interior_P0(P):
    return tuple(p - 1 for p in P)


# ------------------------------------------------------------------------------------------------
#  source terms

class LinearSource(Ob):
    name = 'linearSourceTerm/diagonal_beta'
    props = ('C06', 'C04', 'C02', 'C07')

    def setup(self, w):
        beta, _ = make_cellvar(w, 'beta', bc=False)
        return dict(M=src_.linearSourceTerm(beta), phi=w.rawcell('phi')._value, beta=beta)

    def region(self, w):
        return [c for a in range(w.nd) for c in (I(w.P[a]) >= 0, I(w.P[a]) <= w.N[a] + 1)]

    def points(self, w):
        import itertools
        return list(itertools.product(*[range(0, n + 2) for n in w.N]))

    def claims(self, w, S, P, part=None):
        if w.symbolic:
            interior = all(CTX.decide((I(P[a]) >= 1) & (I(P[a]) <= w.N[a])) for a in range(w.nd))
        else:
            interior = all(1 <= P[a] <= w.N[a] for a in range(w.nd))
        v = w.apply(S['M'], S['phi'], P)
        if interior:
            return [('diag_is_beta_P', w.eq(v, w.at(S['beta']._value, P) * w.at(S['phi'], P)))]
        return [('no_row_outside_interior', w.eq(v, 0))]


class ConstantSource(LinearSource):
    name = 'constantSourceTerm/gamma_P'

    def setup(self, w):
        g, _ = make_cellvar(w, 'gamma', bc=False)
        return dict(V=src_.constantSourceTerm(g), gamma=g)

    def claims(self, w, S, P, part=None):
        if w.symbolic:
            interior = all(CTX.decide((I(P[a]) >= 1) & (I(P[a]) <= w.N[a])) for a in range(w.nd))
        else:
            interior = all(1 <= P[a] <= w.N[a] for a in range(w.nd))
        v = w.vec(S['V'], P)
        if interior:
            return [('rhs_is_gamma_P', w.eq(v, w.at(S['gamma']._value, P)))]
        return [('zero_outside_interior', w.eq(v, 0))]


class TransientTerm(LinearSource):
    """transientTerm(phi_old, dt, alpha) = (diag(alpha_P/dt) on interior rows, alpha_P*phi_old_P/dt)"""
    name = 'transientTerm/backward_euler'
    props = ('C12', 'C04', 'C02', 'C07')
    alpha_kind = 'scalar'

    def setup(self, w):
        old, _ = make_cellvar(w, 'old')
        dt = w.scalar('dt', 'pos')
        if self.alpha_kind == 'scalar':
            alpha = w.scalar('alpha', 'pos')
            aval = None
        else:
            alpha, _ = make_cellvar(w, 'alpha', bc=False)
            aval = alpha._value
        M, RHS = src_.transientTerm(old, dt, alpha)
        return dict(M=M, RHS=RHS, old=old, dt=dt, alpha=alpha, aval=aval, phi=w.rawcell('phi')._value)

    def claims(self, w, S, P, part=None):
        if w.symbolic:
            interior = all(CTX.decide((I(P[a]) >= 1) & (I(P[a]) <= w.N[a])) for a in range(w.nd))
        else:
            interior = all(1 <= P[a] <= w.N[a] for a in range(w.nd))
        mv = w.apply(S['M'], S['phi'], P)
        rv = w.vec(S['RHS'], P)
        if not interior:
            return [('no_row_outside_interior', w.eq(mv, 0)), ('zero_rhs_outside_interior', w.eq(rv, 0))]
        a = S['alpha'] if S['aval'] is None else w.at(S['aval'], P)
        return [('matrix_is_alpha_over_dt', w.eq(mv, a / S['dt'] * w.at(S['phi'], P))),
                ('rhs_is_alpha_old_over_dt', w.eq(rv, a * w.at(S['old']._value, P) / S['dt']))]


class TransientTermCellAlpha(TransientTerm):
    name = 'transientTerm/backward_euler(alpha per cell)'
    alpha_kind = 'cell'


# ------------------------------------------------------------------------------------------------
#  solvePDE

def _term_zoo(w):
    """a list of equation terms of every accepted kind, negated / scaled, built by the real builders"""
    D = w.facevar('D')
    u = w.facevar('u')
    beta, _ = make_cellvar(w, 'beta', bc=False)
    gam, _ = make_cellvar(w, 'gamma', bc=False)
    Md = dif.diffusionTerm(D)
    Mu = adv.convectionUpwindTerm(u)
    Ms = src_.linearSourceTerm(beta)
    Rg = src_.constantSourceTerm(gam)
    return dict(Md=Md, Mu=Mu, Ms=Ms, Rg=Rg)


class SolvePDE(Ob):
    """solvePDE(phi, terms): the system handed to the solver is  (Mbc + sum M_k) x = RHSbc + sum R_k  with
    (Mbc, RHSbc) = boundaryConditionsTerm of the variable's current BCs; the same object is returned, its interior
    values are the reshaped solver output and its ghost values satisfy the boundary relation (C03)."""
    name = 'solvePDE/system_is_bc_plus_terms'
    props = ('C04', 'C12')
    pattern = None
    dirty = False
    dirty_face = 'left'
    claimed_scale = 2.0       # the factor of the scaled term in the claimed row identity (a canary claims 1.0)
    signed_pairs = False      # (matrix, vector) pairs handed over as utilities.SignedTuple, negated / unary-plus

    def parts(self, w):
        return ['rows', 'result']

    def region(self, w):
        return [c for a in range(w.nd) for c in (I(w.P[a]) >= 0, I(w.P[a]) <= w.N[a] + 1)]

    def points(self, w):
        import itertools
        return list(itertools.product(*[range(0, n + 2) for n in w.N]))

    def setup(self, w):
        phi, coefs = make_cellvar(w, 'phi0', self.pattern)
        z = _term_zoo(w)
        dt = w.scalar('dt', 'pos')
        Mt, Rt = src_.transientTerm(phi, dt, 1.0)
        terms = [(Mt, Rt), -z['Md'], z['Mu'], 2.0 * z['Ms'], z['Rg'], -z['Rg']]
        pairs = None
        if self.signed_pairs:
            # negated / unary-plus (matrix, vector) pairs: utilities.SignedTuple is the library's vehicle for them
            tp = utl.SignedTuple((Mt, Rt))
            td = utl.SignedTuple((z['Md'], z['Rg']))
            neg, pos = -tp, +td
            terms = [neg, pos, 2.0 * z['Ms']]
            try:
                utl.SignedTuple((Mt, object.__new__(_NoNeg)))
                rejected = False
            except ValueError:
                rejected = True
            pairs = dict(tp=tp, td=td, neg=neg, pos=pos, rejected=rejected)
        if self.dirty:
            # pending edit of a boundary coefficient (of ONE face, after reaching a clean state): the cached boundary
            # term must be rebuilt before use
            phi.apply_BCs()
            ax, sd = [(a_, s_) for a_ in range(3) for s_ in (0, 1) if SIDES[a_][s_] == self.dirty_face][0]
            face = getattr(phi.BCs, self.dirty_face)
            face.c = w.array('newc', tuple(face.c.shape))
            coefs[(ax, sd, 'c')] = face.c
        Mbc, RHSbc = bnd.boundaryConditionsTerm(phi.BCs)
        rec = {}

        def solver(M, RHS):
            rec['M'], rec['RHS'] = M, RHS
            rec['n'] = rec.get('n', 0) + 1
            if w.symbolic:
                x = T.SPSOLVE(M, RHS)
                rec['xname'] = x.solve_record.name
                return x
            from scipy.sparse.linalg import spsolve
            rec['x'] = spsolve(M, RHS)
            return rec['x']
        res = pde.solvePDE(phi, terms, externalsolver=solver)
        psi = w.rawcell('psi')._value
        return dict(phi=phi, res=res, rec=rec, Mbc=Mbc, RHSbc=RHSbc, terms=terms, psi=psi, z=z, Mt=Mt, Rt=Rt, coefs=coefs,
                    pairs=pairs)

    def claims(self, w, S, P, part):
        rec = S['rec']
        out = []
        if part == 'rows':
            # corner / edge cells (more than one index on the boundary) are bookkeeping rows outside the property
            nb = 0
            for a in range(w.nd):
                if w.symbolic:
                    onb = CTX.decide((I(P[a]) == 0) | (I(P[a]) == w.N[a] + 1))
                else:
                    onb = P[a] in (0, w.N[a] + 1)
                nb += 1 if onb else 0
            if nb > 1:
                return []
            psi = S['psi']
            lhs = w.apply(rec['M'], psi, P) - w.vec(rec['RHS'], P)
            z = S['z']
            if self.signed_pairs:
                # -(Mt, Rt) + (Md, Rg) + 2 Ms ; Mt / Rt / Md / Rg are the objects the pairs were built from, so a
                # negation that flipped them in place would also fail here
                pr = S['pairs']
                want = (w.apply(S['Mbc'], psi, P) - w.vec(S['RHSbc'], P)
                        - (w.apply(S['Mt'], psi, P) - w.vec(S['Rt'], P))
                        + (w.apply(z['Md'], psi, P) - w.vec(z['Rg'], P))
                        + self.claimed_scale * w.apply(z['Ms'], psi, P))
                out.append(('system_row_is_bc_plus_signed_pairs', w.eq(lhs, want)))
                out.append(('negated_pair_is_componentwise_negation',
                            w.eq(w.apply(pr['neg'][0], psi, P) - w.vec(pr['neg'][1], P),
                                 -(w.apply(S['Mt'], psi, P) - w.vec(S['Rt'], P)))))
                out.append(('negated_matrix_alone', w.eq(w.apply(pr['neg'][0], psi, P), -w.apply(S['Mt'], psi, P))))
                return out
            want = (w.apply(S['Mbc'], psi, P) - w.vec(S['RHSbc'], P)
                    + w.apply(S['Mt'], psi, P) - w.vec(S['Rt'], P)
                    - w.apply(z['Md'], psi, P) + w.apply(z['Mu'], psi, P) + self.claimed_scale * w.apply(z['Ms'], psi, P)
                    - w.vec(z['Rg'], P) + w.vec(z['Rg'], P))
            out.append(('system_row_is_bc_plus_terms', w.eq(lhs, want)))
            return out
        ok = (S['res'] is S['phi']) and rec.get('n') == 1
        out.append(('returns_same_object_and_one_solver_call', (B.const(ok) if w.symbolic else ok)))
        if self.signed_pairs:
            pr = S['pairs']
            shape_ok = (type(pr['neg']) is utl.SignedTuple and isinstance(pr['neg'], tuple) and len(pr['neg']) == 2
                        and pr['pos'] is pr['td'] and len(pr['tp']) == 2
                        and pr['tp'][0] is S['Mt'] and pr['tp'][1] is S['Rt']
                        and pr['neg'][0] is not S['Mt'] and pr['neg'][1] is not S['Rt']
                        and type(-pr['neg']) is utl.SignedTuple and pr['rejected'])
            out.append(('signed_tuple_protocol', (B.const(shape_ok) if w.symbolic else shape_ok)))
        if w.symbolic:
            interior = all(CTX.decide((I(P[a]) >= 1) & (I(P[a]) <= w.N[a])) for a in range(w.nd))
            if interior:
                x = R.var(rec['xname'], (w.lin(P),))
                out.append(('interior_is_solver_output', w.eq(w.at(S['phi']._value, P), x)))
        else:
            if all(1 <= P[a] <= w.N[a] for a in range(w.nd)):
                out.append(('interior_is_solver_output', w.eq(w.at(S['phi']._value, P), float(rec['x'][w.lin(P)]))))
        flags = (not S['phi'].BCs.modified) and (not S['phi'].value.modified)
        out.append(('dirty_bits_cleared', (B.const(flags) if w.symbolic else flags)))
        return out


class _NoNeg:
    """an object without unary minus (object.__new__(_NoNeg) has no __neg__)"""


class SolvePDESignedPairs(SolvePDE):
    """negated / unary-plus (matrix, vector) pairs: utilities.SignedTuple negates component-wise into a new SignedTuple,
    leaves its components alone, `+t is t`, refuses components without unary minus (ValueError), and solvePDE
    accumulates such pairs like plain tuples"""
    name = 'solvePDE/signed_pairs_negated_and_plus'
    props = ('C04',)
    signed_pairs = True
    functions = ('pyfvtool.utilities.SignedTuple.__init__', 'pyfvtool.utilities.SignedTuple.__neg__',
                 'pyfvtool.utilities.SignedTuple.__pos__')


class SolvePDEDirty(SolvePDE):
    name = 'solvePDE/system_is_bc_plus_terms(after a BC edit)'
    props = ('C04', 'C09')
    dirty = True
    dirty_face = 'left'


def _mk_dirty():
    for a_ in range(3):
        for s_ in (0, 1):
            f = SIDES[a_][s_]
            if f == 'left':
                continue
            cn = 'SolvePDEDirty_' + f
            cls = type(cn, (SolvePDEDirty,), dict(dirty_face=f, name='solvePDE/system_is_bc_plus_terms(after an edit of BCs.%s only)' % f,
                                                  grids=tuple(g for g in ALL if GRIDS[g]['nd'] > a_),
                                                  quick=(f in ('back', 'front', 'top'))))
            cls.__module__ = __name__
            globals()[cn] = cls


_mk_dirty()


class SolvePDEPeriodic(SolvePDE):
    name = 'solvePDE/system_is_bc_plus_terms(periodic last axis)'
    grids = ('Grid1D', 'Grid2D', 'PolarGrid2D', 'CylindricalGrid2D', 'Grid3D', 'CylindricalGrid3D', 'SphericalGrid3D')

    def setup(self, w):
        self.pattern = ('l' if w.nd == 1 else 'n' * (w.nd - 1) + 'r')
        return super().setup(w)


class SolvePDEGhosts(Ob):
    """after solvePDE the ghost values satisfy the boundary relation of the variable's BCs (C03 on the post-state)"""
    name = 'solvePDE/ghosts_satisfy_bcs'
    props = ('C03', 'C04')

    def parts(self, w):
        return [(a, s) for a in range(w.nd) for s in (0, 1)]

    def setup(self, w):
        phi, coefs = make_cellvar(w, 'phi0')
        z = _term_zoo(w)
        pde.solvePDE(phi, [-z['Md'], z['Ms'], z['Rg']])
        return dict(phi=phi, coefs=coefs)

    def claims(self, w, S, P, part):
        a, s = part
        Q, G = boundary_cell(w, P, a, s)
        v = S['phi']._value
        vg, vq = w.at(v, G), w.at(v, Q)
        lo, hi = (vg, vq) if s == 0 else (vq, vg)
        den = ghost_denominator(w, S['coefs'], a, s, Q)
        resid = robin_residual(w, S['coefs'], a, s, Q, lo, hi)
        if w.symbolic:
            return [('robin_relation_after_solve[%s]' % SIDES[a][s], (R.of(den) != 0).implies(R.of(resid) == 0))]
        if abs(den) <= 1e-6:
            return []
        w.scale = 1e4
        return [('robin_relation_after_solve[%s]' % SIDES[a][s], w.eq(resid, 0.0))]


class SolveMatrixPDE(Ob):
    name = 'solveMatrixPDE/same_system_same_solver'
    props = ('C04',)

    def region(self, w):
        return [c for a in range(w.nd) for c in (I(w.P[a]) >= 0, I(w.P[a]) <= w.N[a] + 1)]

    def points(self, w):
        import itertools
        return list(itertools.product(*[range(0, n + 2) for n in w.N]))

    def setup(self, w):
        z = _term_zoo(w)
        BC, coefs = make_bc(w, 'n' * w.nd)
        Mbc, RHSbc = bnd.boundaryConditionsTerm(BC)
        M = Mbc - z['Md'] + z['Ms']
        RHS = RHSbc + z['Rg']
        rec = {}

        def solver(M_, RHS_):
            rec['M'], rec['RHS'] = M_, RHS_
            if w.symbolic:
                x = T.SPSOLVE(M_, RHS_)
                rec['xname'] = x.solve_record.name
                return x
            from scipy.sparse.linalg import spsolve
            rec['x'] = spsolve(M_, RHS_)
            return rec['x']
        res = pde.solveMatrixPDE(w.mesh, M, RHS, externalsolver=solver)
        return dict(res=res, rec=rec, M=M, RHS=RHS)

    def claims(self, w, S, P, part=None):
        rec = S['rec']
        ok = rec['M'] is S['M'] and rec['RHS'] is S['RHS']
        out = [('solver_called_with_the_given_system', (B.const(ok) if w.symbolic else ok))]
        if w.symbolic:
            x = R.var(rec['xname'], (w.lin(P),))
        else:
            x = float(rec['x'][w.lin(P)])
        out.append(('values_are_reshaped_solver_output', w.eq(w.at(S['res']._value, P), x)))
        return out


class SolvePDETypeErrors(Ob):
    """unknown term objects raise TypeError (documented) instead of computing something"""
    name = 'solvePDE/unknown_term_typeerror'
    props = ('C04', 'C16')
    grids = ('Grid1D', 'Grid2D')

    def region(self, w):
        return []

    def points(self, w):
        return [()]

    def setup(self, w):
        z = _term_zoo(w)
        np_ = w.np
        bad = {
            '3-D array': np_.zeros((2, 2, 2)),
            'tuple (vector, matrix)': (z['Rg'], z['Md']),
            'tuple (matrix, matrix)': (z['Md'], z['Md']),
            'python float': 3.0,
            'None': None,
            'string': 'diffusion',
            'tuple of 3': (z['Md'], z['Rg'], z['Rg']),
        }
        outcome = {}
        for k, t in bad.items():
            phi, _ = make_cellvar(w, 'phi0')
            try:
                pde.solvePDE(phi, [z['Ms'], t])
                outcome[k] = 'no exception'
            except TypeError:
                outcome[k] = 'TypeError'
            except Exception as e:   # noqa: BLE001
                outcome[k] = type(e).__name__
        return dict(outcome=outcome)

    def claims(self, w, S, P, part=None):
        out = []
        for k, v in S['outcome'].items():
            ok = (v == 'TypeError')
            out.append(('typeerror[%s]' % k, (B.const(ok) if w.symbolic else ok)))
        return out


# ------------------------------------------------------------------------------------------------
#  loop invariant of solvePDE's accumulation loop, checked on the loop body extracted from the current source

class _Tok:
    """abstract value: only + is defined; records the expression tree"""
    def __init__(self, name, ndim, tree=None):
        self.name = name
        self.ndim = ndim
        self.tree = tree if tree is not None else name

    def __add__(self, o):
        if not isinstance(o, _Tok) or o.ndim != self.ndim:
            raise TypeError('incompatible')
        return _Tok('(%s+%s)' % (self.name, o.name), self.ndim, ('+', self.tree, o.tree))


class _InPlaceTok(_Tok):
    """an ndarray-like token: += mutates in place (like numpy), recorded"""
    def __iadd__(self, o):
        r = _Tok.__add__(self, o)
        self.name, self.tree = r.name, r.tree
        return self


def extract_loop_body():
    """AST of solvePDE's `for term in eqnterms:` loop, compiled as body(term, M, RHS) -> (M, RHS)"""
    path = os.path.join(T.SRC, 'pyfvtool', 'pdesolver.py')
    tree = ast.parse(open(path).read())
    fn = [n for n in tree.body if isinstance(n, ast.FunctionDef) and n.name == 'solvePDE'][0]
    loops = [n for n in ast.walk(fn) if isinstance(n, ast.For)]
    if len(loops) != 1:
        raise T.OutOfReach('solvePDE: expected exactly one loop, found %d' % len(loops))
    loop = loops[0]
    if not (isinstance(loop.target, ast.Name) and isinstance(loop.iter, ast.Name)):
        raise T.OutOfReach('solvePDE loop header changed shape')
    tname = loop.target.id
    body = list(loop.body)
    names_assigned = set()
    for n in ast.walk(ast.Module(body=body, type_ignores=[])):
        if isinstance(n, (ast.Name,)) and isinstance(n.ctx, ast.Store):
            names_assigned.add(n.id)
    src = 'def __body(%s, M, RHS):\n    pass\n' % tname
    mod = ast.parse(src)
    f = mod.body[0]
    f.body = body + [ast.parse('return M, RHS').body[0]]
    ast.fix_missing_locations(mod)
    ns = {}
    exec(compile(mod, path, 'exec'), ns)
    return ns['__body'], sorted(names_assigned), loop.iter.id


class SolvePDELoopInvariant(Ob):
    """invariant  M = Mbc + sum_{k<idx} Mpart(term_k),  RHS = RHSbc + sum_{k<idx} Rpart(term_k): preserved by one
    generic iteration for each kind of term; exactly the other kinds raise TypeError.  Abstract values carry only
    `ndim`, `+`, `+=` (the body uses nothing else), so the check covers every term list."""
    name = 'solvePDE/loop_invariant_accumulation'
    props = ('C04',)
    grids = ('Grid1D',)

    def region(self, w):
        return []

    def points(self, w):
        return [()]

    def setup(self, w):
        body, assigned, itername = extract_loop_body()
        res = {}

        def run(term):
            M = _Tok('M', 2)
            RHS = _InPlaceTok('RHS', 1)
            try:
                M2, R2 = body(term, M, RHS)
                return ('ok', M2.tree, R2.tree, R2 is RHS)
            except TypeError:
                return ('TypeError',)
            except Exception as e:    # noqa: BLE001
                return (type(e).__name__,)
        res['matrix'] = run(_Tok('A', 2))
        res['vector'] = run(_Tok('b', 1))
        res['pair'] = run((_Tok('A', 2), _Tok('b', 1)))
        res['pair_swapped'] = run((_Tok('b', 1), _Tok('A', 2)))
        res['pair_mm'] = run((_Tok('A', 2), _Tok('A2', 2)))
        res['rank3'] = run(_Tok('T', 3))
        res['rank0'] = run(_Tok('s', 0))
        return dict(res=res, assigned=assigned)

    def claims(self, w, S, P, part=None):
        r = S['res']
        exp = {
            'matrix': ('ok', ('+', 'M', 'A'), 'RHS', True),
            'vector': ('ok', 'M', ('+', 'RHS', 'b'), True),
            'pair': ('ok', ('+', 'M', 'A'), ('+', 'RHS', 'b'), True),
            'pair_swapped': ('TypeError',),
            'pair_mm': ('TypeError',),
            'rank3': ('TypeError',),
            'rank0': ('TypeError',),
        }
        out = []
        for k, e in exp.items():
            ok = (r[k] == e)
            out.append(('iteration[%s]' % k, (B.const(ok) if w.symbolic else ok)))
        return out


# ------------------------------------------------------------------------------------------------
#  solveExplicitPDE

class SolveExplicit(Ob):
    """result interior = old + dt*RHS; ghosts satisfy the input's BCs; the input variable is not written when it is
    clean (only re-synchronised when dirty); the result owns a boundary term (usable by solvePDE)"""
    name = 'solveExplicitPDE/old_plus_dt_rhs'
    props = ('C12', 'C03', 'C01')

    def parts(self, w):
        return ['interior'] + [(a, s) for a in range(w.nd) for s in (0, 1)]

    def setup(self, w):
        old, coefs = make_cellvar(w, 'old')
        dt = w.scalar('dt', 'pos')
        n = 1
        for x in w.ghost_shape():
            n = n * x
        RHS = w.array('rhs', w.ghost_shape())
        rhs_flat = RHS.ravel() if not w.symbolic else npshim_reshape_flat(w, RHS)
        before = w.np.copy(old._value)
        nw0 = len(CTX.writes)
        ids = (old._value.buf.id,) if w.symbolic else ()
        new = pde.solveExplicitPDE(old, dt, rhs_flat)
        writes = [x for x in CTX.writes[nw0:] if x[0] in ids] if w.symbolic else []
        return dict(old=old, new=new, dt=dt, RHS=RHS, before=before, coefs=coefs, writes=writes)

    def claims(self, w, S, P, part):
        new, old = S['new'], S['old']
        if part == 'interior':
            out = [('interior_is_old_plus_dt_rhs',
                    w.eq(w.at(new._value, P), w.at(S['before'], P) + S['dt'] * w.at(S['RHS'], P))),
                   ('input_values_untouched', w.eq(w.at(old._value, P), w.at(S['before'], P)))]
            ok = (new is not old) and (len(S['writes']) == 0)
            if w.symbolic:
                ok = ok and new._value.buf.id != old._value.buf.id
            else:
                ok = ok and not w.np.shares_memory(new._value, old._value)
            out.append(('result_is_a_new_variable_input_not_written', (B.const(ok) if w.symbolic else ok)))
            return out
        a, s = part
        Q, G = boundary_cell(w, P, a, s)
        v = new._value
        vg, vq = w.at(v, G), w.at(v, Q)
        lo, hi = (vg, vq) if s == 0 else (vq, vg)
        den = ghost_denominator(w, S['coefs'], a, s, Q)
        resid = robin_residual(w, S['coefs'], a, s, Q, lo, hi)
        if w.symbolic:
            return [('boundary_values_reimposed[%s]' % SIDES[a][s], (R.of(den) != 0).implies(R.of(resid) == 0))]
        if abs(den) <= 1e-6:
            return []
        w.scale = 1e4
        return [('boundary_values_reimposed[%s]' % SIDES[a][s], w.eq(resid, 0.0))]


def npshim_reshape_flat(w, arr):
    """the 1-D cell vector with the entries of arr (what a builder would return)"""
    if w.nd == 1:
        return arr
    shape = w.ghost_shape()
    n = 1
    for x in shape:
        n = n * x
    snap = arr.snap()

    def fn(idx):
        l = I(idx[0]).as_lin()
        if l is None:
            raise T.OutOfReach('cell vector read with a non-cell index')
        return snap(l.idx)
    return SymNDArray.from_fn((n,), fn, 'real', origin='input:rhs')


# ------------------------------------------------------------------------------------------------
#  solver-level corollaries of C06, stated on the system the real solvePDE hands to the solver

class UniformSteadyState(Ob):
    """C06 'Therefore ...': with a transient term, upwind AND central advection in a velocity field whose discrete
    divergence vanishes in the cell, diffusion, and boundaries that match the uniform value c (Dirichlet value c on the
    lower faces, default no-flux on the upper faces), the uniform field phi = c (ghost cells included) satisfies EVERY
    row of the system the real solvePDE assembles from a uniform old field -- for every dt, alpha, spacing, D, u.
    With non-singularity (A4, Lean unique_solution) the solver returns it: a uniform field is a steady state."""
    name = 'solvePDE/uniform_field_is_steady_state'
    props = ('C06',)
    grids = tuple(g for g in ALL if GRIDS[g]['nd'] < 3)
    velocity_kind = None          # 3-D variant below: every velocity component positive (keeps the whole-row query small)

    def region(self, w):
        return [c for a in range(w.nd) for c in (I(w.P[a]) >= 0, I(w.P[a]) <= w.N[a] + 1)]

    def points(self, w):
        import itertools
        return list(itertools.product(*[range(0, n + 2) for n in w.N]))

    def setup(self, w):
        c = w.scalar('cval')
        BC = bnd.BoundaryConditions(w.mesh)
        for a in range(w.nd):
            getattr(BC, SIDES[a][0]).fixedValue(c)
        phi = cel.CellVariable(w.mesh, c, BC)
        D = w.facevar('D')
        u = w.facevar('u', self.velocity_kind)
        dt = w.scalar('dt', 'pos')
        alpha = w.scalar('alpha', 'pos')
        Mt, Rt = src_.transientTerm(phi, dt, alpha)
        rec = {}

        def solver(M, RHS):
            rec['M'], rec['RHS'] = M, RHS
            if w.symbolic:
                return T.SPSOLVE(M, RHS)
            from scipy.sparse.linalg import spsolve
            return spsolve(M, RHS)
        terms = [(Mt, Rt), adv.convectionUpwindTerm(u), adv.convectionTerm(u), -dif.diffusionTerm(D)]
        pde.solvePDE(phi, terms, externalsolver=solver)
        div = cal.divergenceTerm(u)
        const = w.np.ones(w.ghost_shape()) * c
        return dict(rec=rec, div=div, const=const, c=c)

    def claims(self, w, S, P, part=None):
        nb = 0
        for a in range(w.nd):
            onb = CTX.decide((I(P[a]) == 0) | (I(P[a]) == w.N[a] + 1)) if w.symbolic else (P[a] in (0, w.N[a] + 1))
            nb += 1 if onb else 0
        if nb > 1:
            return []
        rec = S['rec']
        resid = w.apply(rec['M'], S['const'], P) - w.vec(rec['RHS'], P)
        if nb == 1:
            return [('uniform_field_satisfies_boundary_row', w.eq(resid, 0))]
        # both advection terms are in the list: each contributes c*div(u); the hypothesis is div(u)[P] == 0
        dv = w.vec(S['div'], P)
        if w.symbolic:
            return [('uniform_field_satisfies_interior_row_when_div_u_is_zero', (R.of(dv) == 0).implies(R.of(resid) == 0)),
                    ('interior_row_residual_is_2c_div_u', w.eq(resid, 2 * S['c'] * dv))]
        w.scale = 1e3
        return [('interior_row_residual_is_2c_div_u', w.eq(resid, 2 * S['c'] * dv))]


class UniformSteadyState3D(UniformSteadyState):
    name = 'solvePDE/uniform_field_is_steady_state(3-D, positive velocity components)'
    # SphericalGrid3D / CylindricalGrid3D: the whole-row query (three axes, r^2 sin(theta) factors) exceeds the solver
    # budget; there the statement follows modularly from the per-axis const_field clauses and the solvePDE row identity
    grids = ('Grid3D',)
    velocity_kind = 'pos'


class LocalSourcesSolve(Ob):
    """C06 last clause: solvePDE(phi, [linearSourceTerm(beta), constantSourceTerm(gamma)]) assembles, in every interior
    cell of every grid, exactly the equation beta_P * x_P = gamma_P (no coupling to any other cell)."""
    name = 'solvePDE/beta_phi_equals_gamma_is_cell_local'
    props = ('C06',)

    def setup(self, w):
        phi, _ = make_cellvar(w, 'phi0')
        beta, _ = make_cellvar(w, 'beta', bc=False)
        gam, _ = make_cellvar(w, 'gamma', bc=False)
        rec = {}

        def solver(M, RHS):
            rec['M'], rec['RHS'] = M, RHS
            if w.symbolic:
                return T.SPSOLVE(M, RHS)
            from scipy.sparse.linalg import spsolve
            return spsolve(M, RHS)
        pde.solvePDE(phi, [src_.linearSourceTerm(beta), src_.constantSourceTerm(gam)], externalsolver=solver)
        return dict(rec=rec, beta=beta, gam=gam, psi=w.rawcell('psi')._value)

    def claims(self, w, S, P, part=None):
        rec = S['rec']
        lhs = w.apply(rec['M'], S['psi'], P) - w.vec(rec['RHS'], P)
        want = w.at(S['beta']._value, P) * w.at(S['psi'], P) - w.at(S['gam']._value, P)
        return [('interior_equation_is_beta_x_equals_gamma', w.eq(lhs, want))]
