"""C12 time stepping"""
from .common import jobs_for
LEVEL = 'proof'
LEVEL_TEXT = 'transientTerm (scalar and per-cell alpha, traced through the real CellVariable arithmetic) is proved to be diag(alpha_P/dt) on interior rows with RHS alpha_P*old_P/dt; together with the solvePDE row identity every interior row of a step reads alpha_P(new-old)_P/dt + (spatial terms applied to new)_P = sources; solveExplicitPDE: interior = old + dt*RHS, boundary values re-imposed, input not written, result is a new variable'
LEVEL_NOTE = 'steady state = fixed point follows from the per-row identity and non-singularity (A4); the limits dt->0, dt->infinity and the O(dt^2) explicit/implicit agreement are analytic corollaries and are NOT machine-checked'
NOT_MACHINE_CHECKED = ['dt -> infinity returns the steady solution', 'dt -> 0 returns the old field', 'explicit and implicit step agree to O(dt^2)']
MODULES = ['contracts.solver', 'contracts.state']
TRUSTED = ['A1', 'A2', 'A4', 'A5', 'A6', 'UF']


def jobs(tier):
    return jobs_for('C12', MODULES, tier)


def extra(tier, seed):
    from fvverif.lean import lemma_status
    ok, detail = lemma_status(['steady_is_fixed_point', 'unique_solution'], rebuild=(tier == 'thorough'))
    return [('lean lemmas steady_is_fixed_point/unique_solution: a steady solution solves the backward-Euler system for every dt, alpha; uniqueness => it is returned', ok, 'lean:' + detail)]
