"""C05 implicit matrices = explicit gradient/mean/divergence chain"""
from .common import jobs_for
LEVEL = 'proof'
LEVEL_TEXT = 'matrix-applied-to-field = explicit divergence/gradient/mean chain, per axis, for a symbolic interior cell and a fully symbolic field incl. ghost values, every sign pattern of u (sign cases split), with and without u_upwind; zero limiter gives zero'
LEVEL_NOTE = 'numpy model (A2) validated differentially each run; unit-limiter/central identity holds in every interior cell incl. the cells next to the boundary; the TVD correction is pinned for an arbitrary limiter by convectionTvdRHS/limited_flux_form; explicit-u_upwind-with-exact-zeros is a recorded finding'
NOT_MACHINE_CHECKED = ['the explicit chain for a user-supplied u_upwind with exact zeros on faces where u != 0 (recorded finding)']
MODULES = ['contracts.ops', 'contracts.canaries']
TRUSTED = ['A1', 'A2', 'A5', 'A6', 'UF']


def jobs(tier):
    return jobs_for('C05', MODULES, tier)
