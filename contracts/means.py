"""C11: cell-to-face means against their specification per axis and face, on every grid class (the mean functions
dispatch on the dimension only, so the 9 classes exercise 3 code paths with 9 different meshes)."""
import math
from .common import *
from fvverif import trace as T
from fvverif.reals import variables, rmin, rmax


def _faces_region(w, a):
    """P indexes the lower cell of the face: face between cells P and P+e_a, P_a in 0..N_a, other axes interior"""
    conds = []
    for b in range(w.nd):
        if b == a:
            conds += [I(w.P[b]) >= 0, I(w.P[b]) <= w.N[b]]
        else:
            conds += [I(w.P[b]) >= 1, I(w.P[b]) <= w.N[b]]
    return conds


def _face_points(w, a):
    import itertools
    rngs = [(range(0, w.N[b] + 1) if b == a else range(1, w.N[b] + 1)) for b in range(w.nd)]
    return list(itertools.product(*rngs))


def _fidx(P, a):
    """index into the a-face array of the face between cells P and P+e_a"""
    return tuple((P[b] if b == a else P[b] - 1) for b in range(len(P)))


class _MeanOb(Ob):
    props = ('C11',)
    fn = None
    data_kind = 'pos'

    def parts(self, w):
        return list(range(w.nd))

    def region(self, w):
        return []          # per axis, inside claims (the face range differs from axis to axis)

    def points(self, w):
        return [()]

    def setup(self, w):
        phi = w.rawcell('phi', self.data_kind)
        return dict(F=self.call(w, phi), phi=phi._value)

    def call(self, w, phi):
        return getattr(avg, self.fn)(phi)

    def spec(self, w, S, a, P, va, vb, hl, hh):
        raise NotImplementedError

    def face_claims(self, w, S, a, P):
        lo, hi = P, shift(P, a, 1)
        va, vb = w.at(S['phi'], lo), w.at(S['phi'], hi)
        cs = getattr(w.mesh.cellsize, '_' + AX[a])
        hl, hh = w.at(cs, (lo[a],)), w.at(cs, (hi[a],))
        comp = getattr(S['F'], '_' + AX[a] + 'value')
        v = w.at(comp, _fidx(P, a))
        return self.clauses(w, S, a, P, v, va, vb, hl, hh, lo, hi)

    def claims(self, w, S, P, a):
        if w.symbolic:
            out = []
            n = CTX.push(_faces_region(w, a))
            try:
                return self.face_claims(w, S, a, P)
            finally:
                CTX.pop(n)
        out = []
        for Q in _face_points(w, a):
            out += self.face_claims(w, S, a, Q)
        return out


# The symbolic driver explores under Ob.region(); the face region depends on the axis, so these obligations supply
# the region per part through `region_for`.
class _MeanAxisOb(_MeanOb):
    def region(self, w):
        return []

    def claims(self, w, S, P, a):
        if w.symbolic:
            for c in _faces_region(w, a):
                if not CTX.entails(c):
                    from fvverif.ints import NeedSplit
                    if CTX.entails(c.neg()):
                        return []
                    raise NeedSplit(c)
            return self.face_claims(w, S, a, P)
        out = []
        for Q in _face_points(w, a):
            out += self.face_claims(w, S, a, Q)
        return out

    def support_ok(self, w, v, lo, hi):
        if not w.symbolic:
            return True
        ok = True
        for x in variables(R.of(v)):
            if x.node[1] == 'phi':
                idx = x.node[2]
                on_lo = all(CTX.decide(I(p) == I(q)) for p, q in zip(idx, lo))
                on_hi = all(CTX.decide(I(p) == I(q)) for p, q in zip(idx, hi))
                ok = ok and (on_lo or on_hi)
        return ok

    def between(self, w, v, va, vb):
        if w.symbolic:
            return (rmin(va, vb) <= R.of(v)) & (R.of(v) <= rmax(va, vb))
        return w.le(min(va, vb), v) and w.le(v, max(va, vb))

    def const_clause(self, w, v, va, vb):
        if w.symbolic:
            return (R.of(va) == R.of(vb)).implies(R.of(v) == R.of(va))
        return True


class ArithmeticMean(_MeanAxisOb):
    name = 'arithmeticMean/spec'
    fn = 'arithmeticMean'

    def clauses(self, w, S, a, P, v, va, vb, hl, hh, lo, hi):
        spec = (hl * va + hh * vb) / (hl + hh)
        return [('equals_width_weighted_arithmetic_mean[%s]' % AX[a], w.eq(v, spec)),
                ('between_neighbours[%s]' % AX[a], self.between(w, v, va, vb)),
                ('reproduces_constants[%s]' % AX[a], self.const_clause(w, v, va, vb)),
                ('support_two_cells[%s]' % AX[a], (B.const(self.support_ok(w, v, lo, hi)) if w.symbolic else True))]


class LinearMean(_MeanAxisOb):
    name = 'linearMean/spec'
    props = ('C11', 'C02')
    fn = 'linearMean'
    data_kind = None

    def setup(self, w):
        S = super().setup(w)
        # a linear field alpha + beta*x sampled at the cell centres (ghost centres mirror the adjacent cell size)
        return S

    def clauses(self, w, S, a, P, v, va, vb, hl, hh, lo, hi):
        spec = (hh * va + hl * vb) / (hl + hh)
        out = [('equals_linear_interpolation[%s]' % AX[a], w.eq(v, spec)),
               ('reproduces_constants[%s]' % AX[a], self.const_clause(w, v, va, vb)),
               ('support_two_cells[%s]' % AX[a], (B.const(self.support_ok(w, v, lo, hi)) if w.symbolic else True))]
        # exactness on linear fields: centres at distance hl/2 and hh/2 from the face
        if w.symbolic:
            al, be, xf = R.var('alpha'), R.var('beta'), R.var('xface')
            fa = al + be * (xf - R.of(hl) / 2)
            fb = al + be * (xf + R.of(hh) / 2)
            from fvverif.reals import subst_vars
            vv = R.of(v)

            def sub(nm, idx):
                if nm == 'phi':
                    if all(CTX.decide(I(p) == I(q)) for p, q in zip(idx, lo)):
                        return fa
                    if all(CTX.decide(I(p) == I(q)) for p, q in zip(idx, hi)):
                        return fb
                return None
            out.append(('linear_exact_at_face[%s]' % AX[a], w.eq(subst_vars(vv, sub), al + be * xf)))
        return out


class HarmonicMean(_MeanAxisOb):
    name = 'harmonicMean/spec'
    fn = 'harmonicMean'

    def clauses(self, w, S, a, P, v, va, vb, hl, hh, lo, hi):
        spec = (hl + hh) / (hl / va + hh / vb)
        am = (hl * va + hh * vb) / (hl + hh)
        return [('equals_width_weighted_harmonic_mean[%s]' % AX[a], w.eq(v, spec)),
                ('between_neighbours[%s]' % AX[a], self.between(w, v, va, vb)),
                ('reproduces_constants[%s]' % AX[a], self.const_clause(w, v, va, vb)),
                ('harmonic_le_arithmetic[%s]' % AX[a], w.le(v, am)),
                ('support_two_cells[%s]' % AX[a], (B.const(self.support_ok(w, v, lo, hi)) if w.symbolic else True))]


class HarmonicMeanZeros(_MeanAxisOb):
    """data containing exact zeros: the face value is 0 as soon as one neighbour is 0 (identically in 1-D, 2-D, 3-D)"""
    name = 'harmonicMean/zeros'
    fn = 'harmonicMean'
    data_kind = 'nonneg'

    def clauses(self, w, S, a, P, v, va, vb, hl, hh, lo, hi):
        if w.symbolic:
            z = (R.of(va) == 0) | (R.of(vb) == 0)
            return [('zero_neighbour_gives_zero[%s]' % AX[a], z.implies(R.of(v) == 0))]
        if va == 0.0 or vb == 0.0:
            return [('zero_neighbour_gives_zero[%s]' % AX[a], (v == 0.0))]
        return []


class GeometricMean(_MeanAxisOb):
    name = 'geometricMean/spec'
    uf_congruence = False
    fn = 'geometricMean'

    def clauses(self, w, S, a, P, v, va, vb, hl, hh, lo, hi):
        spec = w.fn('exp', (hl * w.fn('log', va) + hh * w.fn('log', vb)) / (hl + hh))
        return [('equals_exp_of_weighted_log_mean[%s]' % AX[a], w.eq(v, spec)),
                ('between_neighbours[%s]' % AX[a], self.between(w, v, va, vb)),
                ('reproduces_constants[%s]' % AX[a], self.const_clause(w, v, va, vb)),
                ('support_two_cells[%s]' % AX[a], (B.const(self.support_ok(w, v, lo, hi)) if w.symbolic else True))]

    def hyps(self, w, groups, apps, out):
        logs = [x for x in apps if x.node[1] == 'log']
        exps = [x for x in apps if x.node[1] == 'exp']
        for l1 in logs:
            for l2 in logs:
                if l1 is not l2:
                    out.append((l1.node[2] < l2.node[2]).implies(l1 < l2))
                    out.append((l1.node[2] == l2.node[2]).implies(l1 == l2))
        for e in exps:
            t = e.node[2]
            for l in logs:
                x = l.node[2]
                # exp is increasing and exp(log x) = x for x > 0
                out.append((x > 0).implies(((t <= l).implies(e <= x)) & ((t >= l).implies(e >= x))))


class GeometricMeanZeros(_MeanAxisOb):
    """exact zeros: 1-D returns 0 by a branch; 2-D/3-D rely on IEEE log(0) = -inf, exp(-inf) = 0, which has no
    meaning over the reals -- bounded stand-in (native evaluation) only for those"""
    name = 'geometricMean/zeros'
    fn = 'geometricMean'
    data_kind = 'nonneg'
    grids = ('Grid1D', 'CylindricalGrid1D', 'SphericalGrid1D')

    def clauses(self, w, S, a, P, v, va, vb, hl, hh, lo, hi):
        if w.symbolic:
            z = (R.of(va) == 0) | (R.of(vb) == 0)
            return [('zero_neighbour_gives_zero[%s]' % AX[a], z.implies(R.of(v) == 0))]
        if va == 0.0 or vb == 0.0:
            return [('zero_neighbour_gives_zero[%s]' % AX[a], (v == 0.0))]
        return []


class UpwindMean(_MeanAxisOb):
    name = 'upwindMean/donor_value'
    fn = 'upwindMean'
    data_kind = None

    def setup(self, w):
        phi = w.rawcell('phi')
        u = w.facevar('u')
        return dict(F=avg.upwindMean(phi, u), phi=phi._value, u=u)

    def clauses(self, w, S, a, P, v, va, vb, hl, hh, lo, hi):
        u = w.at(getattr(S['u'], '_' + AX[a] + 'value'), _fidx(P, a))
        N = w.N[a]
        if w.symbolic:
            lower_bnd = CTX.decide(I(lo[a]) == 0)
            upper_bnd = CTX.decide(I(hi[a]) == N + 1)
            uu = R.of(u)
            pos = (va + vb) / 2 if lower_bnd else va
            neg = (va + vb) / 2 if upper_bnd else vb
            spec = R.ite(uu > 0, R.of(pos), R.ite(uu < 0, R.of(neg), (R.of(va) + R.of(vb)) / 2))
            return [('donor_cell_or_boundary_value[%s]' % AX[a], w.eq(v, spec)),
                    ('support_two_cells[%s]' % AX[a], B.const(self.support_ok(w, v, lo, hi)))]
        pos = (va + vb) / 2 if lo[a] == 0 else va
        neg = (va + vb) / 2 if hi[a] == N + 1 else vb
        spec = pos if u > 0 else (neg if u < 0 else (va + vb) / 2)
        return [('donor_cell_or_boundary_value[%s]' % AX[a], w.eq(v, spec))]


class GradientTerm(_MeanAxisOb):
    """gradientTerm: centre difference over the metric centre distance (shared with C05 / C02)"""
    name = 'gradientTerm/centre_difference_over_metric_distance'
    props = ('C02', 'C05')
    data_kind = None

    def setup(self, w):
        phi = w.rawcell('phi')
        return dict(F=cal.gradientTerm(phi), phi=phi._value)

    def clauses(self, w, S, a, P, v, va, vb, hl, hh, lo, hi):
        g = 1
        m = w.mesh
        # the lower cell's centre coordinates give the metric (r is constant along theta / phi faces)
        ref = tuple(max(p, 1) if not w.symbolic else p for p in lo)
        rP = w.at(m.cellcenters._x, (lo[0] - 1,)) if w.nd >= 2 else None
        if a == 1 and w.grid in ('PolarGrid2D', 'CylindricalGrid3D', 'SphericalGrid3D'):
            g = rP
        if a == 2 and w.grid == 'SphericalGrid3D':
            g = rP * w.fn('sin', w.at(m.cellcenters._y, (lo[1] - 1,)))
        spec = (vb - va) / ((hl + hh) / 2 * g)
        return [('gradient_is_centre_difference[%s]' % AX[a], w.eq(v, spec))]


class CanaryHarmonicIsArithmetic(_MeanAxisOb):
    name = 'canary/harmonic_mean_is_arithmetic_mean'
    fn = 'harmonicMean'
    grids = ('Grid1D', 'Grid2D')
    canary = True

    def clauses(self, w, S, a, P, v, va, vb, hl, hh, lo, hi):
        return [('canary', w.eq(v, (hl * va + hh * vb) / (hl + hh)))]


class GeometricMeanZerosIEEE(GeometricMeanZeros):
    """2-D / 3-D geometricMean on data with exact zeros: log(0) = -inf, exp(-inf) = 0 is IEEE behaviour without a
    meaning over the reals -> bounded stand-in: native evaluation on small grids with random non-negative data"""
    name = 'geometricMean/zeros(IEEE, bounded)'
    grids = ('Grid2D', 'CylindricalGrid2D', 'PolarGrid2D', 'Grid3D', 'CylindricalGrid3D', 'SphericalGrid3D')
    bounded_only = True
    scope = 'grids of 1..4 cells per axis, random non-negative rational data with ~15% exact zeros, seeds VERIF_SEED..+5 (quick) / +39 (thorough)'

    def setup(self, w):
        import numpy as _np
        with _np.errstate(all='ignore'):
            return super().setup(w)
