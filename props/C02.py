"""C02 solutions converge to the exact solution of the documented PDE"""
from .common import jobs_for
LEVEL = 'other'
LEVEL_TEXT = 'convergence under refinement is a statement about a limit and is NOT decided by contracts; what is proved, for all N, spacings, coefficient fields and fields, is the hypothesis set of the standard convergence theorem for two-point-flux finite-volume schemes: every term is in flux form V_P*T_P = A_hi*F_hi - A_lo*F_lo with the geometric face areas / cell measures of the coordinate system (r, r^2, sin(theta) factors; centre-metric form on SphericalGrid3D), two-point fluxes D*(dphi)/(metric distance), u*(linear interpolation), u*(donor value), gradients over the metric centre distance, linear interpolation exact on linear fields, boundary rows = a*dphi/dn + b*phi = c with the 1/r and 1/(r sin theta) factors, backward-Euler transient term, cell-local sources'
LEVEL_NOTE = 'A7: conservative + flux-consistent (+ monotone for upwind) two-point schemes converge at first/second order -- theory, not machine-checked; an instability that keeps every clause would not be seen; a wrong metric power, sign or coefficient placement fails a named clause'
EXPLANATION = 'consistency conditions of every term and boundary row with the continuous operator proved per cell for all N and spacings (contracts on the real builders, SMT); convergence itself assumed from finite-volume theory (A7)'
NOT_MACHINE_CHECKED = ['error decreases under grid and time-step refinement at the order of the scheme (needs stability + consistency theory)']
MODULES = ['contracts.ops', 'contracts.bc', 'contracts.solver', 'contracts.means']
TRUSTED = ['A1', 'A2', 'A5', 'A6', 'A7', 'UF']


def jobs(tier):
    return jobs_for('C02', MODULES, tier)
